(** C05 / C06: error-state coordinates, correction, output transform, measurement models.
    Theorems about the GENERATED definitions of Gen/ErrState.v (traced from
    pyins/error_model.py, measurements.py, sim.perturb_pva, transform.compute_state_difference).

    Conventions established here (and checked numerically by tools/props/C05.py, C06.py):
      - [correct_pva pva x] REMOVES the error x:   state_diff(pva, correct_pva(pva, e x)) = e T_out x + o(e)
      - measurement residual z = predicted - measured and z = H x + v:
                                                    d/de z(correct_pva(pva, e x)) at 0  =  - H x          *)
From Coq Require Import Reals Lra Lia.
From Coquelicot Require Import Coquelicot.
From PV Require Import Base.RealTac Spec.LibSpecs Spec.Ellipsoid Gen.Util Gen.Transform Gen.ErrState.
From PV Require Import Proofs.To180Proofs Proofs.C16Proofs.
Open Scope R_scope.

(** * Part A: analysis helpers *)

(** ** A.1  wrap180 (util.to_180_range on the pandas path) is the identity on (-180, 180) *)

Lemma wrap180_is_to180 x : wrap180_r x = to_180_range_arr_r x.
Proof. reflexivity. Qed.

Lemma wrap180_id x : -180 < x <= 180 -> wrap180_r x = x.
Proof.
  intro H. rewrite wrap180_is_to180, <- to180_scalar_eq_array. apply to180_of_in_range. exact H.
Qed.

(** a function that vanishes at t and is continuous there is, near t, left alone by wrap180 *)
Lemma pos180_proof : 0 < 180. Proof. lra. Qed.
Definition pos180 : posreal := mkposreal 180 pos180_proof.

Lemma wrap180_locally_id (u : R -> R) t :
  continuous u t -> u t = 0 -> locally t (fun s => u s = wrap180_r (u s)).
Proof.
  intros Hc H0.
  assert (Hl : locally t (fun s => ball (u t) pos180 (u s))) by (apply Hc, locally_ball).
  revert Hl. apply filter_imp. intros s Hs.
  change (Rabs (u s + - u t) < 180) in Hs.
  rewrite H0 in Hs. symmetry. apply wrap180_id.
  apply Rabs_def2 in Hs. lra.
Qed.

Lemma is_derive_wrap180 (u : R -> R) t l :
  is_derive u t l -> u t = 0 -> is_derive (fun s => wrap180_r (u s)) t l.
Proof.
  intros Hd H0. apply (is_derive_ext_loc u); [|exact Hd].
  apply wrap180_locally_id; [|exact H0].
  apply (ex_derive_continuous (V := R_NormedModule) u t). exists l. exact Hd.
Qed.

(** ** A.2  numpy.arctan2: polar form and derivative *)

Lemma atan2_upper y x : 0 < y -> atan2 y x = PI / 2 - atan (x / y).
Proof.
  intro Hy. unfold atan2.
  destruct (Rlt_dec 0 x) as [Hx|Hx].
  - replace (y / x) with (/ (x / y)) by (field; lra).
    rewrite atan_inv; [reflexivity|]. apply Rdiv_lt_0_compat; lra.
  - destruct (Rlt_dec x 0) as [Hx'|Hx'].
    + destruct (Rle_dec 0 y) as [_|C]; [|lra].
      replace (y / x) with (- / ((- x) / y)) by (field; lra).
      rewrite atan_opp, atan_inv by (apply Rdiv_lt_0_compat; lra).
      replace (- x / y) with (- (x / y)) by (field; lra). rewrite atan_opp. lra.
    + assert (x = 0) by lra. subst x.
      destruct (Rlt_dec 0 y) as [_|C]; [|lra].
      replace (0 / y) with 0 by (field; lra). rewrite atan_0. lra.
Qed.

Lemma atan2_lower y x : y < 0 -> atan2 y x = - (PI / 2) - atan (x / y).
Proof.
  intro Hy. unfold atan2.
  destruct (Rlt_dec 0 x) as [Hx|Hx].
  - replace (y / x) with (- / (x / (- y))) by (field; lra).
    rewrite atan_opp, atan_inv by (apply Rdiv_lt_0_compat; lra).
    replace (x / - y) with (- (x / y)) by (field; lra). rewrite atan_opp. lra.
  - destruct (Rlt_dec x 0) as [Hx'|Hx'].
    + destruct (Rle_dec 0 y) as [C|_]; [lra|].
      replace (y / x) with (/ (x / y)) by (field; lra).
      rewrite atan_inv; [lra|].
      replace (x / y) with ((- x) / (- y)) by (field; lra). apply Rdiv_lt_0_compat; lra.
    + assert (x = 0) by lra. subst x.
      destruct (Rlt_dec 0 y) as [C|_]; [lra|].
      destruct (Rlt_dec y 0) as [_|C]; [|lra].
      replace (0 / y) with 0 by (field; lra). rewrite atan_0. lra.
Qed.

Lemma atan2_right y x : 0 < x -> atan2 y x = atan (y / x).
Proof. intro Hx. unfold atan2. destruct (Rlt_dec 0 x); [reflexivity|lra]. Qed.

(** for an angle strictly inside (-pi, pi): cos > 0 or sin <> 0 (i.e. off the branch cut) *)
Lemma polar_offcut th : - PI < th < PI -> 0 < cos th \/ sin th <> 0.
Proof.
  intros [H1 H2].
  destruct (Rtotal_order th 0) as [Hn|[Hz|Hp]].
  - right. apply Rlt_not_eq. apply sin_lt_0_var; lra.
  - left. subst th. rewrite cos_0. lra.
  - right. apply Rgt_not_eq. apply sin_gt_0; lra.
Qed.

Lemma atan2_polar k th : 0 < k -> - PI < th < PI -> atan2 (k * sin th) (k * cos th) = th.
Proof.
  intros Hk [H1 H2]. pose proof PI_RGT_0 as Hpi.
  destruct (Rtotal_order th 0) as [Hn|[Hz|Hp]].
  - assert (Hs : sin th < 0) by (apply sin_lt_0_var; lra).
    rewrite atan2_lower by nra.
    replace (k * cos th / (k * sin th)) with (tan (- (PI / 2) - th)).
    + rewrite atan_tan; lra.
    + unfold tan. replace (- (PI / 2) - th) with (- (PI / 2 + th)) by ring.
      rewrite sin_neg, cos_neg, sin_plus, cos_plus, sin_PI2, cos_PI2. field. lra.
  - subst th. rewrite sin_0, cos_0, Rmult_0_r, Rmult_1_r.
    rewrite atan2_right by lra. unfold Rdiv. rewrite Rmult_0_l. apply atan_0.
  - assert (Hs : 0 < sin th) by (apply sin_gt_0; lra).
    rewrite atan2_upper by nra.
    replace (k * cos th / (k * sin th)) with (tan (PI / 2 - th)).
    + rewrite atan_tan; lra.
    + unfold tan. rewrite sin_minus, cos_minus, sin_PI2, cos_PI2. field. lra.
Qed.

(* after [auto_derive] over abstract functions: replace [Derive (fun x => f x) t] by its value *)
Ltac derive_val H :=
  match type of H with is_derive ?f ?t ?l =>
    replace (Derive (fun x : R => f x) t) with l by (symmetry; apply is_derive_unique; exact H)
  end.

Lemma is_derive_atan_quot (f g : R -> R) t f' g' :
  is_derive f t f' -> is_derive g t g' -> g t <> 0 ->
  is_derive (fun s => atan (f s / g s)) t ((g t * f' - f t * g') / (f t * f t + g t * g t)).
Proof.
  intros Hf Hg Hn.
  assert (Hq : is_derive (fun s => f s / g s) t ((f' * g t - f t * g') / (g t * g t))).
  { auto_derive.
    - repeat split; [exists f'; exact Hf | exists g'; exact Hg | exact Hn].
    - derive_val Hf. derive_val Hg. field. exact Hn. }
  evar_last.
  - apply (is_derive_comp atan (fun s => f s / g s) t _ _ (is_derive_atan _) Hq).
  - unfold scal; simpl; unfold mult; simpl. unfold Rsqr.
    assert (0 < f t * f t + g t * g t) by nra.
    field. repeat split; try exact Hn; apply Rgt_not_eq; nra.
Qed.

Lemma locally_pos (g : R -> R) t : continuous g t -> 0 < g t -> locally t (fun s => 0 < g s).
Proof.
  intros Hc Hp.
  assert (Hl : locally t (fun s => ball (g t) (mkposreal (g t) Hp) (g s))) by (apply Hc, locally_ball).
  revert Hl. apply filter_imp. intros s Hs.
  change (Rabs (g s + - g t) < g t) in Hs. apply Rabs_def2 in Hs. lra.
Qed.

Lemma locally_neg (g : R -> R) t : continuous g t -> g t < 0 -> locally t (fun s => g s < 0).
Proof.
  intros Hc Hn.
  assert (Hl : locally t (fun s => 0 < - g s)).
  { apply (locally_pos (fun s => - g s)); [|lra].
    apply (continuous_opp (V := R_NormedModule) g t). exact Hc. }
  revert Hl. apply filter_imp. intros s Hs. lra.
Qed.

Lemma derive_cont (f : R -> R) t l : is_derive f t l -> continuous f t.
Proof. intro H. apply (ex_derive_continuous (V := R_NormedModule) f t). exists l. exact H. Qed.

(** derivative of arctan2 along a curve that stays off the branch cut {x <= 0, y = 0} *)
Lemma is_derive_atan2 (f g : R -> R) t f' g' :
  is_derive f t f' -> is_derive g t g' -> (0 < g t \/ f t <> 0) ->
  is_derive (fun s => atan2 (f s) (g s)) t ((g t * f' - f t * g') / (f t * f t + g t * g t)).
Proof.
  intros Hf Hg Hoff.
  destruct (Rlt_dec 0 (g t)) as [Hgp|Hgp].
  - apply (is_derive_ext_loc (fun s => atan (f s / g s))).
    + generalize (locally_pos g t (derive_cont _ _ _ Hg) Hgp). apply filter_imp.
      intros s Hs. symmetry. apply atan2_right. exact Hs.
    + apply is_derive_atan_quot; [exact Hf|exact Hg|lra].
  - assert (Hfn : f t <> 0) by (destruct Hoff; [lra|assumption]).
    destruct (Rtotal_order (f t) 0) as [Hn|[Hz|Hp]]; [| contradiction |].
    + apply (is_derive_ext_loc (fun s => - (PI / 2) - atan (g s / f s))).
      * generalize (locally_neg f t (derive_cont _ _ _ Hf) Hn). apply filter_imp.
        intros s Hs. symmetry. apply atan2_lower. exact Hs.
      * pose proof (is_derive_atan_quot g f t g' f' Hg Hf Hfn) as Hq.
        evar_last.
        -- apply (is_derive_minus (V := R_NormedModule)); [apply is_derive_const | exact Hq].
        -- unfold minus, plus, opp, zero; simpl. field. apply Rgt_not_eq. nra.
    + apply (is_derive_ext_loc (fun s => PI / 2 - atan (g s / f s))).
      * generalize (locally_pos f t (derive_cont _ _ _ Hf) Hp). apply filter_imp.
        intros s Hs. symmetry. apply atan2_upper. exact Hs.
      * pose proof (is_derive_atan_quot g f t g' f' Hg Hf Hfn) as Hq.
        evar_last.
        -- apply (is_derive_minus (V := R_NormedModule)); [apply is_derive_const | exact Hq].
        -- unfold minus, plus, opp, zero; simpl. field. apply Rgt_not_eq. nra.
Qed.

(** ** A.3  scipy Rotation.from_rotvec along a ray  e |-> Rot(e * (a, b, c))

    The written specification [rotvec_mij] (Spec/LibSpecs.v) branches on |v| = 0.  Along a ray the
    entries are the smooth closed forms below (Rodrigues with the unit axis), for EVERY e and
    every (a, b, c), including (0,0,0): the factor [/ n] is only ever multiplied by a component
    that vanishes together with n. *)

Definition ray_n (a b c : R) : R := sqrt (a * a + b * b + c * c).
Definition ray_in (a b c : R) : R := / ray_n a b c.
Definition ray_s (a b c e : R) : R := sin (e * ray_n a b c) * ray_in a b c.
Definition ray_v (a b c e : R) : R := (1 - cos (e * ray_n a b c)) * (ray_in a b c * ray_in a b c).
Definition ray_c (a b c e : R) : R := cos (e * ray_n a b c).

Definition ray_m00 a b c e := ray_v a b c e * a * a + ray_c a b c e.
Definition ray_m01 a b c e := ray_v a b c e * a * b - ray_s a b c e * c.
Definition ray_m02 a b c e := ray_v a b c e * a * c + ray_s a b c e * b.
Definition ray_m10 a b c e := ray_v a b c e * b * a + ray_s a b c e * c.
Definition ray_m11 a b c e := ray_v a b c e * b * b + ray_c a b c e.
Definition ray_m12 a b c e := ray_v a b c e * b * c - ray_s a b c e * a.
Definition ray_m20 a b c e := ray_v a b c e * c * a - ray_s a b c e * b.
Definition ray_m21 a b c e := ray_v a b c e * c * b + ray_s a b c e * a.
Definition ray_m22 a b c e := ray_v a b c e * c * c + ray_c a b c e.

Lemma ray_sumsq_nonneg a b c : 0 <= a * a + b * b + c * c.
Proof. nra. Qed.

Lemma ray_n_sq a b c : ray_n a b c * ray_n a b c = a * a + b * b + c * c.
Proof. unfold ray_n. apply sqrt_sqrt. apply ray_sumsq_nonneg. Qed.

Lemma ray_n_nonneg a b c : 0 <= ray_n a b c.
Proof. unfold ray_n. apply sqrt_pos. Qed.

Lemma ray_n_zero a b c : ray_n a b c = 0 -> a = 0 /\ b = 0 /\ c = 0.
Proof.
  intro H. pose proof (ray_n_sq a b c) as Hs. rewrite H in Hs.
  assert (a * a = 0 /\ b * b = 0 /\ c * c = 0) as [Ha [Hb Hc]] by (repeat split; nra).
  repeat split; apply Rsqr_0_uniq; assumption.
Qed.

Lemma rv_norm_ray a b c e : rv_norm (e * a) (e * b) (e * c) = Rabs e * ray_n a b c.
Proof.
  unfold rv_norm, ray_n.
  replace (e * a * (e * a) + e * b * (e * b) + e * c * (e * c))
    with (Rsqr e * (a * a + b * b + c * c)) by (unfold Rsqr; ring).
  rewrite sqrt_mult; [|apply Rle_0_sqr|apply ray_sumsq_nonneg].
  rewrite sqrt_Rsqr_abs. reflexivity.
Qed.

Lemma rv_sumsq_ray a b c e :
  e * a * (e * a) + e * b * (e * b) + e * c * (e * c) = (e * ray_n a b c) * (e * ray_n a b c).
Proof.
  replace (e * ray_n a b c * (e * ray_n a b c)) with (e * e * (ray_n a b c * ray_n a b c)) by ring.
  rewrite ray_n_sq. ring.
Qed.

Lemma sin_abs_mul e n : sin (Rabs e * n) = (if Rcase_abs e then -1 else 1) * sin (e * n).
Proof.
  unfold Rabs. destruct (Rcase_abs e).
  - replace (- e * n) with (- (e * n)) by ring. rewrite sin_neg. ring.
  - ring.
Qed.

Lemma cos_abs_mul e n : cos (Rabs e * n) = cos (e * n).
Proof.
  unfold Rabs. destruct (Rcase_abs e).
  - replace (- e * n) with (- (e * n)) by ring. apply cos_neg.
  - reflexivity.
Qed.

Lemma rv_cos_ray a b c e : rv_cos (e * a) (e * b) (e * c) = ray_c a b c e.
Proof. unfold rv_cos, ray_c. rewrite rv_norm_ray. apply cos_abs_mul. Qed.

Lemma rv_k1_ray a b c e t : (ray_n a b c = 0 -> t = 0) ->
  rv_k1 (e * a) (e * b) (e * c) * (e * t) = ray_s a b c e * t.
Proof.
  intro Ht. unfold rv_k1, ray_s, ray_in. rewrite rv_norm_ray.
  destruct (Req_dec (ray_n a b c) 0) as [Hn|Hn].
  - rewrite (Ht Hn). ring.
  - destruct (Req_dec e 0) as [He|He].
    + subst e. rewrite Rabs_R0, !Rmult_0_l, sin_0.
      destruct (Req_EM_T 0 0) as [_|C]; [ring|contradiction].
    + assert (Habs : Rabs e <> 0) by (apply Rabs_no_R0; exact He).
      destruct (Req_EM_T (Rabs e * ray_n a b c) 0) as [C|_].
      { apply Rmult_integral in C. tauto. }
      rewrite sin_abs_mul. unfold Rabs in *. destruct (Rcase_abs e); field; split; assumption || lra.
Qed.

Lemma rv_k2_ray a b c e s t : (ray_n a b c = 0 -> s = 0) ->
  rv_k2 (e * a) (e * b) (e * c) * (e * s) * (e * t) = ray_v a b c e * s * t.
Proof.
  intro Hs. unfold rv_k2, ray_v, ray_in. rewrite rv_norm_ray, rv_sumsq_ray.
  destruct (Req_dec (ray_n a b c) 0) as [Hn|Hn].
  - rewrite (Hs Hn). ring.
  - destruct (Req_dec e 0) as [He|He].
    + subst e. rewrite Rabs_R0, !Rmult_0_l, cos_0.
      destruct (Req_EM_T 0 0) as [_|C]; [ring|contradiction].
    + assert (Habs : Rabs e <> 0) by (apply Rabs_no_R0; exact He).
      destruct (Req_EM_T (Rabs e * ray_n a b c) 0) as [C|_].
      { apply Rmult_integral in C. tauto. }
      rewrite cos_abs_mul. field. split; assumption.
Qed.

Ltac ray_side := let Hz := fresh "Hz" in intro Hz; apply ray_n_zero in Hz; tauto.

Lemma rotvec_ray a b c e :
  rotvec_m00 (e * a) (e * b) (e * c) = ray_m00 a b c e /\
  rotvec_m01 (e * a) (e * b) (e * c) = ray_m01 a b c e /\
  rotvec_m02 (e * a) (e * b) (e * c) = ray_m02 a b c e /\
  rotvec_m10 (e * a) (e * b) (e * c) = ray_m10 a b c e /\
  rotvec_m11 (e * a) (e * b) (e * c) = ray_m11 a b c e /\
  rotvec_m12 (e * a) (e * b) (e * c) = ray_m12 a b c e /\
  rotvec_m20 (e * a) (e * b) (e * c) = ray_m20 a b c e /\
  rotvec_m21 (e * a) (e * b) (e * c) = ray_m21 a b c e /\
  rotvec_m22 (e * a) (e * b) (e * c) = ray_m22 a b c e.
Proof.
  unfold rotvec_m00, rotvec_m01, rotvec_m02, rotvec_m10, rotvec_m11, rotvec_m12,
    rotvec_m20, rotvec_m21, rotvec_m22,
    ray_m00, ray_m01, ray_m02, ray_m10, ray_m11, ray_m12, ray_m20, ray_m21, ray_m22.
  rewrite rv_cos_ray.
  rewrite (rv_k1_ray a b c e a), (rv_k1_ray a b c e b), (rv_k1_ray a b c e c) by ray_side.
  rewrite (rv_k2_ray a b c e a a), (rv_k2_ray a b c e a b), (rv_k2_ray a b c e a c),
    (rv_k2_ray a b c e b a), (rv_k2_ray a b c e b b), (rv_k2_ray a b c e b c),
    (rv_k2_ray a b c e c a), (rv_k2_ray a b c e c b), (rv_k2_ray a b c e c c) by ray_side.
  repeat split; reflexivity.
Qed.

(** values and derivatives at e = 0: the identity and the skew matrix of (a, b, c) *)
Lemma ray_at0 a b c :
  ray_m00 a b c 0 = 1 /\ ray_m01 a b c 0 = 0 /\ ray_m02 a b c 0 = 0 /\
  ray_m10 a b c 0 = 0 /\ ray_m11 a b c 0 = 1 /\ ray_m12 a b c 0 = 0 /\
  ray_m20 a b c 0 = 0 /\ ray_m21 a b c 0 = 0 /\ ray_m22 a b c 0 = 1.
Proof.
  unfold ray_m00, ray_m01, ray_m02, ray_m10, ray_m11, ray_m12, ray_m20, ray_m21, ray_m22,
    ray_v, ray_s, ray_c.
  rewrite !Rmult_0_l, sin_0, cos_0. repeat split; ring.
Qed.

Lemma ray_s_derive a b c t : (ray_n a b c = 0 -> t = 0) ->
  is_derive (fun e => ray_s a b c e * t) 0 t.
Proof.
  intro Ht. unfold ray_s. auto_derive; [exact I|].
  rewrite !Rmult_0_l, cos_0. unfold ray_in.
  destruct (Req_dec (ray_n a b c) 0) as [Hn|Hn]; [rewrite (Ht Hn); ring | field; exact Hn].
Qed.

Lemma ray_v_derive a b c : is_derive (ray_v a b c) 0 0.
Proof.
  unfold ray_v. auto_derive; [exact I|]. rewrite !Rmult_0_l, sin_0. ring.
Qed.

Lemma ray_c_derive a b c : is_derive (ray_c a b c) 0 0.
Proof.
  unfold ray_c. auto_derive; [exact I|]. rewrite !Rmult_0_l, sin_0. ring.
Qed.

(* split conjunctions only (plain [repeat split] would also open [is_derive]) *)
Ltac splits := repeat match goal with |- _ /\ _ => split end.

Ltac ray_derive_tac a b c :=
  unfold ray_m00, ray_m01, ray_m02, ray_m10, ray_m11, ray_m12, ray_m20, ray_m21, ray_m22,
    ray_v, ray_s, ray_c;
  auto_derive; [exact I|];
  rewrite !Rmult_0_l, ?sin_0, ?cos_0; unfold ray_in;
  let Hn := fresh "Hn" in
  destruct (Req_dec (ray_n a b c) 0) as [Hn|Hn];
  [ destruct (ray_n_zero _ _ _ Hn) as [-> [-> ->]]; ring | field; exact Hn ].

Lemma ray_derive a b c :
  is_derive (ray_m00 a b c) 0 0 /\ is_derive (ray_m01 a b c) 0 (- c) /\ is_derive (ray_m02 a b c) 0 b /\
  is_derive (ray_m10 a b c) 0 c /\ is_derive (ray_m11 a b c) 0 0 /\ is_derive (ray_m12 a b c) 0 (- a) /\
  is_derive (ray_m20 a b c) 0 (- b) /\ is_derive (ray_m21 a b c) 0 a /\ is_derive (ray_m22 a b c) 0 0.
Proof.
  splits; ray_derive_tac a b c.
Qed.

(** * Part B: the output / internal transforms as matrices (C05 a, d) *)

(** Small matrices as functions of two indices; all products below have inner dimension 9. *)
Definition mat := nat -> nat -> R.
Fixpoint sumN (n : nat) (f : nat -> R) : R := match n with O => 0 | S m => sumN m f + f m end.
Definition mmul (n : nat) (A B : mat) : mat := fun i j => sumN n (fun k => A i k * B k j).
Definition I_ : mat := fun i j => if Nat.eqb i j then 1 else 0.
Definition meq (r c : nat) (A B : mat) : Prop := forall i j, (i < r)%nat -> (j < c)%nat -> A i j = B i j.
(** matrix times vector, n columns *)
Definition mvec (n : nat) (A : mat) (x : nat -> R) : nat -> R := fun i => sumN n (fun k => A i k * x k).

(** Assembly of the GENERATED entries into matrices (pure index bookkeeping). *)
Definition Tout3 (lat lon alt VN VE VD roll pitch heading : R) (i j : nat) : R :=
  match i, j with
  | 0, 0 => to_output3d_t00 lat lon alt VN VE VD roll pitch heading | 0, 1 => to_output3d_t01 lat lon alt VN VE VD roll pitch heading | 0, 2 => to_output3d_t02 lat lon alt VN VE VD roll pitch heading | 0, 3 => to_output3d_t03 lat lon alt VN VE VD roll pitch heading | 0, 4 => to_output3d_t04 lat lon alt VN VE VD roll pitch heading | 0, 5 => to_output3d_t05 lat lon alt VN VE VD roll pitch heading | 0, 6 => to_output3d_t06 lat lon alt VN VE VD roll pitch heading | 0, 7 => to_output3d_t07 lat lon alt VN VE VD roll pitch heading | 0, 8 => to_output3d_t08 lat lon alt VN VE VD roll pitch heading
  | 1, 0 => to_output3d_t10 lat lon alt VN VE VD roll pitch heading | 1, 1 => to_output3d_t11 lat lon alt VN VE VD roll pitch heading | 1, 2 => to_output3d_t12 lat lon alt VN VE VD roll pitch heading | 1, 3 => to_output3d_t13 lat lon alt VN VE VD roll pitch heading | 1, 4 => to_output3d_t14 lat lon alt VN VE VD roll pitch heading | 1, 5 => to_output3d_t15 lat lon alt VN VE VD roll pitch heading | 1, 6 => to_output3d_t16 lat lon alt VN VE VD roll pitch heading | 1, 7 => to_output3d_t17 lat lon alt VN VE VD roll pitch heading | 1, 8 => to_output3d_t18 lat lon alt VN VE VD roll pitch heading
  | 2, 0 => to_output3d_t20 lat lon alt VN VE VD roll pitch heading | 2, 1 => to_output3d_t21 lat lon alt VN VE VD roll pitch heading | 2, 2 => to_output3d_t22 lat lon alt VN VE VD roll pitch heading | 2, 3 => to_output3d_t23 lat lon alt VN VE VD roll pitch heading | 2, 4 => to_output3d_t24 lat lon alt VN VE VD roll pitch heading | 2, 5 => to_output3d_t25 lat lon alt VN VE VD roll pitch heading | 2, 6 => to_output3d_t26 lat lon alt VN VE VD roll pitch heading | 2, 7 => to_output3d_t27 lat lon alt VN VE VD roll pitch heading | 2, 8 => to_output3d_t28 lat lon alt VN VE VD roll pitch heading
  | 3, 0 => to_output3d_t30 lat lon alt VN VE VD roll pitch heading | 3, 1 => to_output3d_t31 lat lon alt VN VE VD roll pitch heading | 3, 2 => to_output3d_t32 lat lon alt VN VE VD roll pitch heading | 3, 3 => to_output3d_t33 lat lon alt VN VE VD roll pitch heading | 3, 4 => to_output3d_t34 lat lon alt VN VE VD roll pitch heading | 3, 5 => to_output3d_t35 lat lon alt VN VE VD roll pitch heading | 3, 6 => to_output3d_t36 lat lon alt VN VE VD roll pitch heading | 3, 7 => to_output3d_t37 lat lon alt VN VE VD roll pitch heading | 3, 8 => to_output3d_t38 lat lon alt VN VE VD roll pitch heading
  | 4, 0 => to_output3d_t40 lat lon alt VN VE VD roll pitch heading | 4, 1 => to_output3d_t41 lat lon alt VN VE VD roll pitch heading | 4, 2 => to_output3d_t42 lat lon alt VN VE VD roll pitch heading | 4, 3 => to_output3d_t43 lat lon alt VN VE VD roll pitch heading | 4, 4 => to_output3d_t44 lat lon alt VN VE VD roll pitch heading | 4, 5 => to_output3d_t45 lat lon alt VN VE VD roll pitch heading | 4, 6 => to_output3d_t46 lat lon alt VN VE VD roll pitch heading | 4, 7 => to_output3d_t47 lat lon alt VN VE VD roll pitch heading | 4, 8 => to_output3d_t48 lat lon alt VN VE VD roll pitch heading
  | 5, 0 => to_output3d_t50 lat lon alt VN VE VD roll pitch heading | 5, 1 => to_output3d_t51 lat lon alt VN VE VD roll pitch heading | 5, 2 => to_output3d_t52 lat lon alt VN VE VD roll pitch heading | 5, 3 => to_output3d_t53 lat lon alt VN VE VD roll pitch heading | 5, 4 => to_output3d_t54 lat lon alt VN VE VD roll pitch heading | 5, 5 => to_output3d_t55 lat lon alt VN VE VD roll pitch heading | 5, 6 => to_output3d_t56 lat lon alt VN VE VD roll pitch heading | 5, 7 => to_output3d_t57 lat lon alt VN VE VD roll pitch heading | 5, 8 => to_output3d_t58 lat lon alt VN VE VD roll pitch heading
  | 6, 0 => to_output3d_t60 lat lon alt VN VE VD roll pitch heading | 6, 1 => to_output3d_t61 lat lon alt VN VE VD roll pitch heading | 6, 2 => to_output3d_t62 lat lon alt VN VE VD roll pitch heading | 6, 3 => to_output3d_t63 lat lon alt VN VE VD roll pitch heading | 6, 4 => to_output3d_t64 lat lon alt VN VE VD roll pitch heading | 6, 5 => to_output3d_t65 lat lon alt VN VE VD roll pitch heading | 6, 6 => to_output3d_t66 lat lon alt VN VE VD roll pitch heading | 6, 7 => to_output3d_t67 lat lon alt VN VE VD roll pitch heading | 6, 8 => to_output3d_t68 lat lon alt VN VE VD roll pitch heading
  | 7, 0 => to_output3d_t70 lat lon alt VN VE VD roll pitch heading | 7, 1 => to_output3d_t71 lat lon alt VN VE VD roll pitch heading | 7, 2 => to_output3d_t72 lat lon alt VN VE VD roll pitch heading | 7, 3 => to_output3d_t73 lat lon alt VN VE VD roll pitch heading | 7, 4 => to_output3d_t74 lat lon alt VN VE VD roll pitch heading | 7, 5 => to_output3d_t75 lat lon alt VN VE VD roll pitch heading | 7, 6 => to_output3d_t76 lat lon alt VN VE VD roll pitch heading | 7, 7 => to_output3d_t77 lat lon alt VN VE VD roll pitch heading | 7, 8 => to_output3d_t78 lat lon alt VN VE VD roll pitch heading
  | 8, 0 => to_output3d_t80 lat lon alt VN VE VD roll pitch heading | 8, 1 => to_output3d_t81 lat lon alt VN VE VD roll pitch heading | 8, 2 => to_output3d_t82 lat lon alt VN VE VD roll pitch heading | 8, 3 => to_output3d_t83 lat lon alt VN VE VD roll pitch heading | 8, 4 => to_output3d_t84 lat lon alt VN VE VD roll pitch heading | 8, 5 => to_output3d_t85 lat lon alt VN VE VD roll pitch heading | 8, 6 => to_output3d_t86 lat lon alt VN VE VD roll pitch heading | 8, 7 => to_output3d_t87 lat lon alt VN VE VD roll pitch heading | 8, 8 => to_output3d_t88 lat lon alt VN VE VD roll pitch heading
  | _, _ => 0%R
  end%nat.

Definition Tout2 (lat lon alt VN VE VD roll pitch heading : R) (i j : nat) : R :=
  match i, j with
  | 0, 0 => to_output2d_t00 lat lon alt VN VE VD roll pitch heading | 0, 1 => to_output2d_t01 lat lon alt VN VE VD roll pitch heading | 0, 2 => to_output2d_t02 lat lon alt VN VE VD roll pitch heading | 0, 3 => to_output2d_t03 lat lon alt VN VE VD roll pitch heading | 0, 4 => to_output2d_t04 lat lon alt VN VE VD roll pitch heading | 0, 5 => to_output2d_t05 lat lon alt VN VE VD roll pitch heading | 0, 6 => to_output2d_t06 lat lon alt VN VE VD roll pitch heading
  | 1, 0 => to_output2d_t10 lat lon alt VN VE VD roll pitch heading | 1, 1 => to_output2d_t11 lat lon alt VN VE VD roll pitch heading | 1, 2 => to_output2d_t12 lat lon alt VN VE VD roll pitch heading | 1, 3 => to_output2d_t13 lat lon alt VN VE VD roll pitch heading | 1, 4 => to_output2d_t14 lat lon alt VN VE VD roll pitch heading | 1, 5 => to_output2d_t15 lat lon alt VN VE VD roll pitch heading | 1, 6 => to_output2d_t16 lat lon alt VN VE VD roll pitch heading
  | 2, 0 => to_output2d_t20 lat lon alt VN VE VD roll pitch heading | 2, 1 => to_output2d_t21 lat lon alt VN VE VD roll pitch heading | 2, 2 => to_output2d_t22 lat lon alt VN VE VD roll pitch heading | 2, 3 => to_output2d_t23 lat lon alt VN VE VD roll pitch heading | 2, 4 => to_output2d_t24 lat lon alt VN VE VD roll pitch heading | 2, 5 => to_output2d_t25 lat lon alt VN VE VD roll pitch heading | 2, 6 => to_output2d_t26 lat lon alt VN VE VD roll pitch heading
  | 3, 0 => to_output2d_t30 lat lon alt VN VE VD roll pitch heading | 3, 1 => to_output2d_t31 lat lon alt VN VE VD roll pitch heading | 3, 2 => to_output2d_t32 lat lon alt VN VE VD roll pitch heading | 3, 3 => to_output2d_t33 lat lon alt VN VE VD roll pitch heading | 3, 4 => to_output2d_t34 lat lon alt VN VE VD roll pitch heading | 3, 5 => to_output2d_t35 lat lon alt VN VE VD roll pitch heading | 3, 6 => to_output2d_t36 lat lon alt VN VE VD roll pitch heading
  | 4, 0 => to_output2d_t40 lat lon alt VN VE VD roll pitch heading | 4, 1 => to_output2d_t41 lat lon alt VN VE VD roll pitch heading | 4, 2 => to_output2d_t42 lat lon alt VN VE VD roll pitch heading | 4, 3 => to_output2d_t43 lat lon alt VN VE VD roll pitch heading | 4, 4 => to_output2d_t44 lat lon alt VN VE VD roll pitch heading | 4, 5 => to_output2d_t45 lat lon alt VN VE VD roll pitch heading | 4, 6 => to_output2d_t46 lat lon alt VN VE VD roll pitch heading
  | 5, 0 => to_output2d_t50 lat lon alt VN VE VD roll pitch heading | 5, 1 => to_output2d_t51 lat lon alt VN VE VD roll pitch heading | 5, 2 => to_output2d_t52 lat lon alt VN VE VD roll pitch heading | 5, 3 => to_output2d_t53 lat lon alt VN VE VD roll pitch heading | 5, 4 => to_output2d_t54 lat lon alt VN VE VD roll pitch heading | 5, 5 => to_output2d_t55 lat lon alt VN VE VD roll pitch heading | 5, 6 => to_output2d_t56 lat lon alt VN VE VD roll pitch heading
  | 6, 0 => to_output2d_t60 lat lon alt VN VE VD roll pitch heading | 6, 1 => to_output2d_t61 lat lon alt VN VE VD roll pitch heading | 6, 2 => to_output2d_t62 lat lon alt VN VE VD roll pitch heading | 6, 3 => to_output2d_t63 lat lon alt VN VE VD roll pitch heading | 6, 4 => to_output2d_t64 lat lon alt VN VE VD roll pitch heading | 6, 5 => to_output2d_t65 lat lon alt VN VE VD roll pitch heading | 6, 6 => to_output2d_t66 lat lon alt VN VE VD roll pitch heading
  | 7, 0 => to_output2d_t70 lat lon alt VN VE VD roll pitch heading | 7, 1 => to_output2d_t71 lat lon alt VN VE VD roll pitch heading | 7, 2 => to_output2d_t72 lat lon alt VN VE VD roll pitch heading | 7, 3 => to_output2d_t73 lat lon alt VN VE VD roll pitch heading | 7, 4 => to_output2d_t74 lat lon alt VN VE VD roll pitch heading | 7, 5 => to_output2d_t75 lat lon alt VN VE VD roll pitch heading | 7, 6 => to_output2d_t76 lat lon alt VN VE VD roll pitch heading
  | 8, 0 => to_output2d_t80 lat lon alt VN VE VD roll pitch heading | 8, 1 => to_output2d_t81 lat lon alt VN VE VD roll pitch heading | 8, 2 => to_output2d_t82 lat lon alt VN VE VD roll pitch heading | 8, 3 => to_output2d_t83 lat lon alt VN VE VD roll pitch heading | 8, 4 => to_output2d_t84 lat lon alt VN VE VD roll pitch heading | 8, 5 => to_output2d_t85 lat lon alt VN VE VD roll pitch heading | 8, 6 => to_output2d_t86 lat lon alt VN VE VD roll pitch heading
  | _, _ => 0%R
  end%nat.

Definition T32 (VN VE : R) (i j : nat) : R :=
  match i, j with
  | 0, 0 => t32_t00 VN VE | 0, 1 => t32_t01 VN VE | 0, 2 => t32_t02 VN VE | 0, 3 => t32_t03 VN VE | 0, 4 => t32_t04 VN VE | 0, 5 => t32_t05 VN VE | 0, 6 => t32_t06 VN VE
  | 1, 0 => t32_t10 VN VE | 1, 1 => t32_t11 VN VE | 1, 2 => t32_t12 VN VE | 1, 3 => t32_t13 VN VE | 1, 4 => t32_t14 VN VE | 1, 5 => t32_t15 VN VE | 1, 6 => t32_t16 VN VE
  | 2, 0 => t32_t20 VN VE | 2, 1 => t32_t21 VN VE | 2, 2 => t32_t22 VN VE | 2, 3 => t32_t23 VN VE | 2, 4 => t32_t24 VN VE | 2, 5 => t32_t25 VN VE | 2, 6 => t32_t26 VN VE
  | 3, 0 => t32_t30 VN VE | 3, 1 => t32_t31 VN VE | 3, 2 => t32_t32 VN VE | 3, 3 => t32_t33 VN VE | 3, 4 => t32_t34 VN VE | 3, 5 => t32_t35 VN VE | 3, 6 => t32_t36 VN VE
  | 4, 0 => t32_t40 VN VE | 4, 1 => t32_t41 VN VE | 4, 2 => t32_t42 VN VE | 4, 3 => t32_t43 VN VE | 4, 4 => t32_t44 VN VE | 4, 5 => t32_t45 VN VE | 4, 6 => t32_t46 VN VE
  | 5, 0 => t32_t50 VN VE | 5, 1 => t32_t51 VN VE | 5, 2 => t32_t52 VN VE | 5, 3 => t32_t53 VN VE | 5, 4 => t32_t54 VN VE | 5, 5 => t32_t55 VN VE | 5, 6 => t32_t56 VN VE
  | 6, 0 => t32_t60 VN VE | 6, 1 => t32_t61 VN VE | 6, 2 => t32_t62 VN VE | 6, 3 => t32_t63 VN VE | 6, 4 => t32_t64 VN VE | 6, 5 => t32_t65 VN VE | 6, 6 => t32_t66 VN VE
  | 7, 0 => t32_t70 VN VE | 7, 1 => t32_t71 VN VE | 7, 2 => t32_t72 VN VE | 7, 3 => t32_t73 VN VE | 7, 4 => t32_t74 VN VE | 7, 5 => t32_t75 VN VE | 7, 6 => t32_t76 VN VE
  | 8, 0 => t32_t80 VN VE | 8, 1 => t32_t81 VN VE | 8, 2 => t32_t82 VN VE | 8, 3 => t32_t83 VN VE | 8, 4 => t32_t84 VN VE | 8, 5 => t32_t85 VN VE | 8, 6 => t32_t86 VN VE
  | _, _ => 0%R
  end%nat.

Definition T23 (i j : nat) : R :=
  match i, j with
  | 0, 0 => t23_t00 | 0, 1 => t23_t01 | 0, 2 => t23_t02 | 0, 3 => t23_t03 | 0, 4 => t23_t04 | 0, 5 => t23_t05 | 0, 6 => t23_t06 | 0, 7 => t23_t07 | 0, 8 => t23_t08
  | 1, 0 => t23_t10 | 1, 1 => t23_t11 | 1, 2 => t23_t12 | 1, 3 => t23_t13 | 1, 4 => t23_t14 | 1, 5 => t23_t15 | 1, 6 => t23_t16 | 1, 7 => t23_t17 | 1, 8 => t23_t18
  | 2, 0 => t23_t20 | 2, 1 => t23_t21 | 2, 2 => t23_t22 | 2, 3 => t23_t23 | 2, 4 => t23_t24 | 2, 5 => t23_t25 | 2, 6 => t23_t26 | 2, 7 => t23_t27 | 2, 8 => t23_t28
  | 3, 0 => t23_t30 | 3, 1 => t23_t31 | 3, 2 => t23_t32 | 3, 3 => t23_t33 | 3, 4 => t23_t34 | 3, 5 => t23_t35 | 3, 6 => t23_t36 | 3, 7 => t23_t37 | 3, 8 => t23_t38
  | 4, 0 => t23_t40 | 4, 1 => t23_t41 | 4, 2 => t23_t42 | 4, 3 => t23_t43 | 4, 4 => t23_t44 | 4, 5 => t23_t45 | 4, 6 => t23_t46 | 4, 7 => t23_t47 | 4, 8 => t23_t48
  | 5, 0 => t23_t50 | 5, 1 => t23_t51 | 5, 2 => t23_t52 | 5, 3 => t23_t53 | 5, 4 => t23_t54 | 5, 5 => t23_t55 | 5, 6 => t23_t56 | 5, 7 => t23_t57 | 5, 8 => t23_t58
  | 6, 0 => t23_t60 | 6, 1 => t23_t61 | 6, 2 => t23_t62 | 6, 3 => t23_t63 | 6, 4 => t23_t64 | 6, 5 => t23_t65 | 6, 6 => t23_t66 | 6, 7 => t23_t67 | 6, 8 => t23_t68
  | _, _ => 0%R
  end%nat.

Definition TintArg3 (lat lon alt VN VE VD roll pitch heading : R) (i j : nat) : R :=
  match i, j with
  | 0, 0 => to_internal3d_arg_a00 lat lon alt VN VE VD roll pitch heading | 0, 1 => to_internal3d_arg_a01 lat lon alt VN VE VD roll pitch heading | 0, 2 => to_internal3d_arg_a02 lat lon alt VN VE VD roll pitch heading | 0, 3 => to_internal3d_arg_a03 lat lon alt VN VE VD roll pitch heading | 0, 4 => to_internal3d_arg_a04 lat lon alt VN VE VD roll pitch heading | 0, 5 => to_internal3d_arg_a05 lat lon alt VN VE VD roll pitch heading | 0, 6 => to_internal3d_arg_a06 lat lon alt VN VE VD roll pitch heading | 0, 7 => to_internal3d_arg_a07 lat lon alt VN VE VD roll pitch heading | 0, 8 => to_internal3d_arg_a08 lat lon alt VN VE VD roll pitch heading
  | 1, 0 => to_internal3d_arg_a10 lat lon alt VN VE VD roll pitch heading | 1, 1 => to_internal3d_arg_a11 lat lon alt VN VE VD roll pitch heading | 1, 2 => to_internal3d_arg_a12 lat lon alt VN VE VD roll pitch heading | 1, 3 => to_internal3d_arg_a13 lat lon alt VN VE VD roll pitch heading | 1, 4 => to_internal3d_arg_a14 lat lon alt VN VE VD roll pitch heading | 1, 5 => to_internal3d_arg_a15 lat lon alt VN VE VD roll pitch heading | 1, 6 => to_internal3d_arg_a16 lat lon alt VN VE VD roll pitch heading | 1, 7 => to_internal3d_arg_a17 lat lon alt VN VE VD roll pitch heading | 1, 8 => to_internal3d_arg_a18 lat lon alt VN VE VD roll pitch heading
  | 2, 0 => to_internal3d_arg_a20 lat lon alt VN VE VD roll pitch heading | 2, 1 => to_internal3d_arg_a21 lat lon alt VN VE VD roll pitch heading | 2, 2 => to_internal3d_arg_a22 lat lon alt VN VE VD roll pitch heading | 2, 3 => to_internal3d_arg_a23 lat lon alt VN VE VD roll pitch heading | 2, 4 => to_internal3d_arg_a24 lat lon alt VN VE VD roll pitch heading | 2, 5 => to_internal3d_arg_a25 lat lon alt VN VE VD roll pitch heading | 2, 6 => to_internal3d_arg_a26 lat lon alt VN VE VD roll pitch heading | 2, 7 => to_internal3d_arg_a27 lat lon alt VN VE VD roll pitch heading | 2, 8 => to_internal3d_arg_a28 lat lon alt VN VE VD roll pitch heading
  | 3, 0 => to_internal3d_arg_a30 lat lon alt VN VE VD roll pitch heading | 3, 1 => to_internal3d_arg_a31 lat lon alt VN VE VD roll pitch heading | 3, 2 => to_internal3d_arg_a32 lat lon alt VN VE VD roll pitch heading | 3, 3 => to_internal3d_arg_a33 lat lon alt VN VE VD roll pitch heading | 3, 4 => to_internal3d_arg_a34 lat lon alt VN VE VD roll pitch heading | 3, 5 => to_internal3d_arg_a35 lat lon alt VN VE VD roll pitch heading | 3, 6 => to_internal3d_arg_a36 lat lon alt VN VE VD roll pitch heading | 3, 7 => to_internal3d_arg_a37 lat lon alt VN VE VD roll pitch heading | 3, 8 => to_internal3d_arg_a38 lat lon alt VN VE VD roll pitch heading
  | 4, 0 => to_internal3d_arg_a40 lat lon alt VN VE VD roll pitch heading | 4, 1 => to_internal3d_arg_a41 lat lon alt VN VE VD roll pitch heading | 4, 2 => to_internal3d_arg_a42 lat lon alt VN VE VD roll pitch heading | 4, 3 => to_internal3d_arg_a43 lat lon alt VN VE VD roll pitch heading | 4, 4 => to_internal3d_arg_a44 lat lon alt VN VE VD roll pitch heading | 4, 5 => to_internal3d_arg_a45 lat lon alt VN VE VD roll pitch heading | 4, 6 => to_internal3d_arg_a46 lat lon alt VN VE VD roll pitch heading | 4, 7 => to_internal3d_arg_a47 lat lon alt VN VE VD roll pitch heading | 4, 8 => to_internal3d_arg_a48 lat lon alt VN VE VD roll pitch heading
  | 5, 0 => to_internal3d_arg_a50 lat lon alt VN VE VD roll pitch heading | 5, 1 => to_internal3d_arg_a51 lat lon alt VN VE VD roll pitch heading | 5, 2 => to_internal3d_arg_a52 lat lon alt VN VE VD roll pitch heading | 5, 3 => to_internal3d_arg_a53 lat lon alt VN VE VD roll pitch heading | 5, 4 => to_internal3d_arg_a54 lat lon alt VN VE VD roll pitch heading | 5, 5 => to_internal3d_arg_a55 lat lon alt VN VE VD roll pitch heading | 5, 6 => to_internal3d_arg_a56 lat lon alt VN VE VD roll pitch heading | 5, 7 => to_internal3d_arg_a57 lat lon alt VN VE VD roll pitch heading | 5, 8 => to_internal3d_arg_a58 lat lon alt VN VE VD roll pitch heading
  | 6, 0 => to_internal3d_arg_a60 lat lon alt VN VE VD roll pitch heading | 6, 1 => to_internal3d_arg_a61 lat lon alt VN VE VD roll pitch heading | 6, 2 => to_internal3d_arg_a62 lat lon alt VN VE VD roll pitch heading | 6, 3 => to_internal3d_arg_a63 lat lon alt VN VE VD roll pitch heading | 6, 4 => to_internal3d_arg_a64 lat lon alt VN VE VD roll pitch heading | 6, 5 => to_internal3d_arg_a65 lat lon alt VN VE VD roll pitch heading | 6, 6 => to_internal3d_arg_a66 lat lon alt VN VE VD roll pitch heading | 6, 7 => to_internal3d_arg_a67 lat lon alt VN VE VD roll pitch heading | 6, 8 => to_internal3d_arg_a68 lat lon alt VN VE VD roll pitch heading
  | 7, 0 => to_internal3d_arg_a70 lat lon alt VN VE VD roll pitch heading | 7, 1 => to_internal3d_arg_a71 lat lon alt VN VE VD roll pitch heading | 7, 2 => to_internal3d_arg_a72 lat lon alt VN VE VD roll pitch heading | 7, 3 => to_internal3d_arg_a73 lat lon alt VN VE VD roll pitch heading | 7, 4 => to_internal3d_arg_a74 lat lon alt VN VE VD roll pitch heading | 7, 5 => to_internal3d_arg_a75 lat lon alt VN VE VD roll pitch heading | 7, 6 => to_internal3d_arg_a76 lat lon alt VN VE VD roll pitch heading | 7, 7 => to_internal3d_arg_a77 lat lon alt VN VE VD roll pitch heading | 7, 8 => to_internal3d_arg_a78 lat lon alt VN VE VD roll pitch heading
  | 8, 0 => to_internal3d_arg_a80 lat lon alt VN VE VD roll pitch heading | 8, 1 => to_internal3d_arg_a81 lat lon alt VN VE VD roll pitch heading | 8, 2 => to_internal3d_arg_a82 lat lon alt VN VE VD roll pitch heading | 8, 3 => to_internal3d_arg_a83 lat lon alt VN VE VD roll pitch heading | 8, 4 => to_internal3d_arg_a84 lat lon alt VN VE VD roll pitch heading | 8, 5 => to_internal3d_arg_a85 lat lon alt VN VE VD roll pitch heading | 8, 6 => to_internal3d_arg_a86 lat lon alt VN VE VD roll pitch heading | 8, 7 => to_internal3d_arg_a87 lat lon alt VN VE VD roll pitch heading | 8, 8 => to_internal3d_arg_a88 lat lon alt VN VE VD roll pitch heading
  | _, _ => 0%R
  end%nat.

Definition TintArg2 (lat lon alt VN VE VD roll pitch heading : R) (i j : nat) : R :=
  match i, j with
  | 0, 0 => to_internal2d_arg_a00 lat lon alt VN VE VD roll pitch heading | 0, 1 => to_internal2d_arg_a01 lat lon alt VN VE VD roll pitch heading | 0, 2 => to_internal2d_arg_a02 lat lon alt VN VE VD roll pitch heading | 0, 3 => to_internal2d_arg_a03 lat lon alt VN VE VD roll pitch heading | 0, 4 => to_internal2d_arg_a04 lat lon alt VN VE VD roll pitch heading | 0, 5 => to_internal2d_arg_a05 lat lon alt VN VE VD roll pitch heading | 0, 6 => to_internal2d_arg_a06 lat lon alt VN VE VD roll pitch heading | 0, 7 => to_internal2d_arg_a07 lat lon alt VN VE VD roll pitch heading | 0, 8 => to_internal2d_arg_a08 lat lon alt VN VE VD roll pitch heading
  | 1, 0 => to_internal2d_arg_a10 lat lon alt VN VE VD roll pitch heading | 1, 1 => to_internal2d_arg_a11 lat lon alt VN VE VD roll pitch heading | 1, 2 => to_internal2d_arg_a12 lat lon alt VN VE VD roll pitch heading | 1, 3 => to_internal2d_arg_a13 lat lon alt VN VE VD roll pitch heading | 1, 4 => to_internal2d_arg_a14 lat lon alt VN VE VD roll pitch heading | 1, 5 => to_internal2d_arg_a15 lat lon alt VN VE VD roll pitch heading | 1, 6 => to_internal2d_arg_a16 lat lon alt VN VE VD roll pitch heading | 1, 7 => to_internal2d_arg_a17 lat lon alt VN VE VD roll pitch heading | 1, 8 => to_internal2d_arg_a18 lat lon alt VN VE VD roll pitch heading
  | 2, 0 => to_internal2d_arg_a20 lat lon alt VN VE VD roll pitch heading | 2, 1 => to_internal2d_arg_a21 lat lon alt VN VE VD roll pitch heading | 2, 2 => to_internal2d_arg_a22 lat lon alt VN VE VD roll pitch heading | 2, 3 => to_internal2d_arg_a23 lat lon alt VN VE VD roll pitch heading | 2, 4 => to_internal2d_arg_a24 lat lon alt VN VE VD roll pitch heading | 2, 5 => to_internal2d_arg_a25 lat lon alt VN VE VD roll pitch heading | 2, 6 => to_internal2d_arg_a26 lat lon alt VN VE VD roll pitch heading | 2, 7 => to_internal2d_arg_a27 lat lon alt VN VE VD roll pitch heading | 2, 8 => to_internal2d_arg_a28 lat lon alt VN VE VD roll pitch heading
  | 3, 0 => to_internal2d_arg_a30 lat lon alt VN VE VD roll pitch heading | 3, 1 => to_internal2d_arg_a31 lat lon alt VN VE VD roll pitch heading | 3, 2 => to_internal2d_arg_a32 lat lon alt VN VE VD roll pitch heading | 3, 3 => to_internal2d_arg_a33 lat lon alt VN VE VD roll pitch heading | 3, 4 => to_internal2d_arg_a34 lat lon alt VN VE VD roll pitch heading | 3, 5 => to_internal2d_arg_a35 lat lon alt VN VE VD roll pitch heading | 3, 6 => to_internal2d_arg_a36 lat lon alt VN VE VD roll pitch heading | 3, 7 => to_internal2d_arg_a37 lat lon alt VN VE VD roll pitch heading | 3, 8 => to_internal2d_arg_a38 lat lon alt VN VE VD roll pitch heading
  | 4, 0 => to_internal2d_arg_a40 lat lon alt VN VE VD roll pitch heading | 4, 1 => to_internal2d_arg_a41 lat lon alt VN VE VD roll pitch heading | 4, 2 => to_internal2d_arg_a42 lat lon alt VN VE VD roll pitch heading | 4, 3 => to_internal2d_arg_a43 lat lon alt VN VE VD roll pitch heading | 4, 4 => to_internal2d_arg_a44 lat lon alt VN VE VD roll pitch heading | 4, 5 => to_internal2d_arg_a45 lat lon alt VN VE VD roll pitch heading | 4, 6 => to_internal2d_arg_a46 lat lon alt VN VE VD roll pitch heading | 4, 7 => to_internal2d_arg_a47 lat lon alt VN VE VD roll pitch heading | 4, 8 => to_internal2d_arg_a48 lat lon alt VN VE VD roll pitch heading
  | 5, 0 => to_internal2d_arg_a50 lat lon alt VN VE VD roll pitch heading | 5, 1 => to_internal2d_arg_a51 lat lon alt VN VE VD roll pitch heading | 5, 2 => to_internal2d_arg_a52 lat lon alt VN VE VD roll pitch heading | 5, 3 => to_internal2d_arg_a53 lat lon alt VN VE VD roll pitch heading | 5, 4 => to_internal2d_arg_a54 lat lon alt VN VE VD roll pitch heading | 5, 5 => to_internal2d_arg_a55 lat lon alt VN VE VD roll pitch heading | 5, 6 => to_internal2d_arg_a56 lat lon alt VN VE VD roll pitch heading | 5, 7 => to_internal2d_arg_a57 lat lon alt VN VE VD roll pitch heading | 5, 8 => to_internal2d_arg_a58 lat lon alt VN VE VD roll pitch heading
  | 6, 0 => to_internal2d_arg_a60 lat lon alt VN VE VD roll pitch heading | 6, 1 => to_internal2d_arg_a61 lat lon alt VN VE VD roll pitch heading | 6, 2 => to_internal2d_arg_a62 lat lon alt VN VE VD roll pitch heading | 6, 3 => to_internal2d_arg_a63 lat lon alt VN VE VD roll pitch heading | 6, 4 => to_internal2d_arg_a64 lat lon alt VN VE VD roll pitch heading | 6, 5 => to_internal2d_arg_a65 lat lon alt VN VE VD roll pitch heading | 6, 6 => to_internal2d_arg_a66 lat lon alt VN VE VD roll pitch heading | 6, 7 => to_internal2d_arg_a67 lat lon alt VN VE VD roll pitch heading | 6, 8 => to_internal2d_arg_a68 lat lon alt VN VE VD roll pitch heading
  | 7, 0 => to_internal2d_arg_a70 lat lon alt VN VE VD roll pitch heading | 7, 1 => to_internal2d_arg_a71 lat lon alt VN VE VD roll pitch heading | 7, 2 => to_internal2d_arg_a72 lat lon alt VN VE VD roll pitch heading | 7, 3 => to_internal2d_arg_a73 lat lon alt VN VE VD roll pitch heading | 7, 4 => to_internal2d_arg_a74 lat lon alt VN VE VD roll pitch heading | 7, 5 => to_internal2d_arg_a75 lat lon alt VN VE VD roll pitch heading | 7, 6 => to_internal2d_arg_a76 lat lon alt VN VE VD roll pitch heading | 7, 7 => to_internal2d_arg_a77 lat lon alt VN VE VD roll pitch heading | 7, 8 => to_internal2d_arg_a78 lat lon alt VN VE VD roll pitch heading
  | 8, 0 => to_internal2d_arg_a80 lat lon alt VN VE VD roll pitch heading | 8, 1 => to_internal2d_arg_a81 lat lon alt VN VE VD roll pitch heading | 8, 2 => to_internal2d_arg_a82 lat lon alt VN VE VD roll pitch heading | 8, 3 => to_internal2d_arg_a83 lat lon alt VN VE VD roll pitch heading | 8, 4 => to_internal2d_arg_a84 lat lon alt VN VE VD roll pitch heading | 8, 5 => to_internal2d_arg_a85 lat lon alt VN VE VD roll pitch heading | 8, 6 => to_internal2d_arg_a86 lat lon alt VN VE VD roll pitch heading | 8, 7 => to_internal2d_arg_a87 lat lon alt VN VE VD roll pitch heading | 8, 8 => to_internal2d_arg_a88 lat lon alt VN VE VD roll pitch heading
  | _, _ => 0%R
  end%nat.

Fixpoint nary (n : nat) : Type := match n with O => R | S k => R -> nary k end.

Definition app81 (f : nary 81) (inv : nat -> nat -> R) : R :=
  (f (inv 0 0) (inv 0 1) (inv 0 2) (inv 0 3) (inv 0 4) (inv 0 5) (inv 0 6) (inv 0 7) (inv 0 8) (inv 1 0) (inv 1 1) (inv 1 2) (inv 1 3) (inv 1 4) (inv 1 5) (inv 1 6) (inv 1 7) (inv 1 8) (inv 2 0) (inv 2 1) (inv 2 2) (inv 2 3) (inv 2 4) (inv 2 5) (inv 2 6) (inv 2 7) (inv 2 8) (inv 3 0) (inv 3 1) (inv 3 2) (inv 3 3) (inv 3 4) (inv 3 5) (inv 3 6) (inv 3 7) (inv 3 8) (inv 4 0) (inv 4 1) (inv 4 2) (inv 4 3) (inv 4 4) (inv 4 5) (inv 4 6) (inv 4 7) (inv 4 8) (inv 5 0) (inv 5 1) (inv 5 2) (inv 5 3) (inv 5 4) (inv 5 5) (inv 5 6) (inv 5 7) (inv 5 8) (inv 6 0) (inv 6 1) (inv 6 2) (inv 6 3) (inv 6 4) (inv 6 5) (inv 6 6) (inv 6 7) (inv 6 8) (inv 7 0) (inv 7 1) (inv 7 2) (inv 7 3) (inv 7 4) (inv 7 5) (inv 7 6) (inv 7 7) (inv 7 8) (inv 8 0) (inv 8 1) (inv 8 2) (inv 8 3) (inv 8 4) (inv 8 5) (inv 8 6) (inv 8 7) (inv 8 8))%nat.

Definition Tint3 (inv : nat -> nat -> R) (i j : nat) : R :=
  match i, j with
  | 0, 0 => app81 to_internal3d_t00 inv | 0, 1 => app81 to_internal3d_t01 inv | 0, 2 => app81 to_internal3d_t02 inv | 0, 3 => app81 to_internal3d_t03 inv | 0, 4 => app81 to_internal3d_t04 inv | 0, 5 => app81 to_internal3d_t05 inv | 0, 6 => app81 to_internal3d_t06 inv | 0, 7 => app81 to_internal3d_t07 inv | 0, 8 => app81 to_internal3d_t08 inv
  | 1, 0 => app81 to_internal3d_t10 inv | 1, 1 => app81 to_internal3d_t11 inv | 1, 2 => app81 to_internal3d_t12 inv | 1, 3 => app81 to_internal3d_t13 inv | 1, 4 => app81 to_internal3d_t14 inv | 1, 5 => app81 to_internal3d_t15 inv | 1, 6 => app81 to_internal3d_t16 inv | 1, 7 => app81 to_internal3d_t17 inv | 1, 8 => app81 to_internal3d_t18 inv
  | 2, 0 => app81 to_internal3d_t20 inv | 2, 1 => app81 to_internal3d_t21 inv | 2, 2 => app81 to_internal3d_t22 inv | 2, 3 => app81 to_internal3d_t23 inv | 2, 4 => app81 to_internal3d_t24 inv | 2, 5 => app81 to_internal3d_t25 inv | 2, 6 => app81 to_internal3d_t26 inv | 2, 7 => app81 to_internal3d_t27 inv | 2, 8 => app81 to_internal3d_t28 inv
  | 3, 0 => app81 to_internal3d_t30 inv | 3, 1 => app81 to_internal3d_t31 inv | 3, 2 => app81 to_internal3d_t32 inv | 3, 3 => app81 to_internal3d_t33 inv | 3, 4 => app81 to_internal3d_t34 inv | 3, 5 => app81 to_internal3d_t35 inv | 3, 6 => app81 to_internal3d_t36 inv | 3, 7 => app81 to_internal3d_t37 inv | 3, 8 => app81 to_internal3d_t38 inv
  | 4, 0 => app81 to_internal3d_t40 inv | 4, 1 => app81 to_internal3d_t41 inv | 4, 2 => app81 to_internal3d_t42 inv | 4, 3 => app81 to_internal3d_t43 inv | 4, 4 => app81 to_internal3d_t44 inv | 4, 5 => app81 to_internal3d_t45 inv | 4, 6 => app81 to_internal3d_t46 inv | 4, 7 => app81 to_internal3d_t47 inv | 4, 8 => app81 to_internal3d_t48 inv
  | 5, 0 => app81 to_internal3d_t50 inv | 5, 1 => app81 to_internal3d_t51 inv | 5, 2 => app81 to_internal3d_t52 inv | 5, 3 => app81 to_internal3d_t53 inv | 5, 4 => app81 to_internal3d_t54 inv | 5, 5 => app81 to_internal3d_t55 inv | 5, 6 => app81 to_internal3d_t56 inv | 5, 7 => app81 to_internal3d_t57 inv | 5, 8 => app81 to_internal3d_t58 inv
  | 6, 0 => app81 to_internal3d_t60 inv | 6, 1 => app81 to_internal3d_t61 inv | 6, 2 => app81 to_internal3d_t62 inv | 6, 3 => app81 to_internal3d_t63 inv | 6, 4 => app81 to_internal3d_t64 inv | 6, 5 => app81 to_internal3d_t65 inv | 6, 6 => app81 to_internal3d_t66 inv | 6, 7 => app81 to_internal3d_t67 inv | 6, 8 => app81 to_internal3d_t68 inv
  | 7, 0 => app81 to_internal3d_t70 inv | 7, 1 => app81 to_internal3d_t71 inv | 7, 2 => app81 to_internal3d_t72 inv | 7, 3 => app81 to_internal3d_t73 inv | 7, 4 => app81 to_internal3d_t74 inv | 7, 5 => app81 to_internal3d_t75 inv | 7, 6 => app81 to_internal3d_t76 inv | 7, 7 => app81 to_internal3d_t77 inv | 7, 8 => app81 to_internal3d_t78 inv
  | 8, 0 => app81 to_internal3d_t80 inv | 8, 1 => app81 to_internal3d_t81 inv | 8, 2 => app81 to_internal3d_t82 inv | 8, 3 => app81 to_internal3d_t83 inv | 8, 4 => app81 to_internal3d_t84 inv | 8, 5 => app81 to_internal3d_t85 inv | 8, 6 => app81 to_internal3d_t86 inv | 8, 7 => app81 to_internal3d_t87 inv | 8, 8 => app81 to_internal3d_t88 inv
  | _, _ => 0%R
  end%nat.

Definition Tint2 (inv : nat -> nat -> R) (i j : nat) : R :=
  match i, j with
  | 0, 0 => app81 to_internal2d_t00 inv | 0, 1 => app81 to_internal2d_t01 inv | 0, 2 => app81 to_internal2d_t02 inv | 0, 3 => app81 to_internal2d_t03 inv | 0, 4 => app81 to_internal2d_t04 inv | 0, 5 => app81 to_internal2d_t05 inv | 0, 6 => app81 to_internal2d_t06 inv | 0, 7 => app81 to_internal2d_t07 inv | 0, 8 => app81 to_internal2d_t08 inv
  | 1, 0 => app81 to_internal2d_t10 inv | 1, 1 => app81 to_internal2d_t11 inv | 1, 2 => app81 to_internal2d_t12 inv | 1, 3 => app81 to_internal2d_t13 inv | 1, 4 => app81 to_internal2d_t14 inv | 1, 5 => app81 to_internal2d_t15 inv | 1, 6 => app81 to_internal2d_t16 inv | 1, 7 => app81 to_internal2d_t17 inv | 1, 8 => app81 to_internal2d_t18 inv
  | 2, 0 => app81 to_internal2d_t20 inv | 2, 1 => app81 to_internal2d_t21 inv | 2, 2 => app81 to_internal2d_t22 inv | 2, 3 => app81 to_internal2d_t23 inv | 2, 4 => app81 to_internal2d_t24 inv | 2, 5 => app81 to_internal2d_t25 inv | 2, 6 => app81 to_internal2d_t26 inv | 2, 7 => app81 to_internal2d_t27 inv | 2, 8 => app81 to_internal2d_t28 inv
  | 3, 0 => app81 to_internal2d_t30 inv | 3, 1 => app81 to_internal2d_t31 inv | 3, 2 => app81 to_internal2d_t32 inv | 3, 3 => app81 to_internal2d_t33 inv | 3, 4 => app81 to_internal2d_t34 inv | 3, 5 => app81 to_internal2d_t35 inv | 3, 6 => app81 to_internal2d_t36 inv | 3, 7 => app81 to_internal2d_t37 inv | 3, 8 => app81 to_internal2d_t38 inv
  | 4, 0 => app81 to_internal2d_t40 inv | 4, 1 => app81 to_internal2d_t41 inv | 4, 2 => app81 to_internal2d_t42 inv | 4, 3 => app81 to_internal2d_t43 inv | 4, 4 => app81 to_internal2d_t44 inv | 4, 5 => app81 to_internal2d_t45 inv | 4, 6 => app81 to_internal2d_t46 inv | 4, 7 => app81 to_internal2d_t47 inv | 4, 8 => app81 to_internal2d_t48 inv
  | 5, 0 => app81 to_internal2d_t50 inv | 5, 1 => app81 to_internal2d_t51 inv | 5, 2 => app81 to_internal2d_t52 inv | 5, 3 => app81 to_internal2d_t53 inv | 5, 4 => app81 to_internal2d_t54 inv | 5, 5 => app81 to_internal2d_t55 inv | 5, 6 => app81 to_internal2d_t56 inv | 5, 7 => app81 to_internal2d_t57 inv | 5, 8 => app81 to_internal2d_t58 inv
  | 6, 0 => app81 to_internal2d_t60 inv | 6, 1 => app81 to_internal2d_t61 inv | 6, 2 => app81 to_internal2d_t62 inv | 6, 3 => app81 to_internal2d_t63 inv | 6, 4 => app81 to_internal2d_t64 inv | 6, 5 => app81 to_internal2d_t65 inv | 6, 6 => app81 to_internal2d_t66 inv | 6, 7 => app81 to_internal2d_t67 inv | 6, 8 => app81 to_internal2d_t68 inv
  | _, _ => 0%R
  end%nat.

Create HintDb errstate_mat.

#[global] Hint Unfold to_output3d_t00 to_output3d_t01 to_output3d_t02 to_output3d_t03 to_output3d_t04 to_output3d_t05 to_output3d_t06 to_output3d_t07 to_output3d_t08 to_output3d_t10 to_output3d_t11 to_output3d_t12 to_output3d_t13 to_output3d_t14 to_output3d_t15 to_output3d_t16 to_output3d_t17 to_output3d_t18 to_output3d_t20 to_output3d_t21 to_output3d_t22 to_output3d_t23 to_output3d_t24 to_output3d_t25 to_output3d_t26 to_output3d_t27 to_output3d_t28 to_output3d_t30 to_output3d_t31 to_output3d_t32 to_output3d_t33 to_output3d_t34 to_output3d_t35 to_output3d_t36 to_output3d_t37 to_output3d_t38 to_output3d_t40 to_output3d_t41 to_output3d_t42 to_output3d_t43 to_output3d_t44 to_output3d_t45 to_output3d_t46 to_output3d_t47 to_output3d_t48 to_output3d_t50 to_output3d_t51 to_output3d_t52 to_output3d_t53 to_output3d_t54 to_output3d_t55 to_output3d_t56 to_output3d_t57 to_output3d_t58 to_output3d_t60 to_output3d_t61 to_output3d_t62 to_output3d_t63 to_output3d_t64 to_output3d_t65 to_output3d_t66 to_output3d_t67 to_output3d_t68 to_output3d_t70 to_output3d_t71 to_output3d_t72 to_output3d_t73 to_output3d_t74 to_output3d_t75 to_output3d_t76 to_output3d_t77 to_output3d_t78 to_output3d_t80 to_output3d_t81 to_output3d_t82 to_output3d_t83 to_output3d_t84 to_output3d_t85 to_output3d_t86 to_output3d_t87 to_output3d_t88 : errstate_mat.

#[global] Hint Unfold to_output2d_t00 to_output2d_t01 to_output2d_t02 to_output2d_t03 to_output2d_t04 to_output2d_t05 to_output2d_t06 to_output2d_t10 to_output2d_t11 to_output2d_t12 to_output2d_t13 to_output2d_t14 to_output2d_t15 to_output2d_t16 to_output2d_t20 to_output2d_t21 to_output2d_t22 to_output2d_t23 to_output2d_t24 to_output2d_t25 to_output2d_t26 to_output2d_t30 to_output2d_t31 to_output2d_t32 to_output2d_t33 to_output2d_t34 to_output2d_t35 to_output2d_t36 to_output2d_t40 to_output2d_t41 to_output2d_t42 to_output2d_t43 to_output2d_t44 to_output2d_t45 to_output2d_t46 to_output2d_t50 to_output2d_t51 to_output2d_t52 to_output2d_t53 to_output2d_t54 to_output2d_t55 to_output2d_t56 to_output2d_t60 to_output2d_t61 to_output2d_t62 to_output2d_t63 to_output2d_t64 to_output2d_t65 to_output2d_t66 to_output2d_t70 to_output2d_t71 to_output2d_t72 to_output2d_t73 to_output2d_t74 to_output2d_t75 to_output2d_t76 to_output2d_t80 to_output2d_t81 to_output2d_t82 to_output2d_t83 to_output2d_t84 to_output2d_t85 to_output2d_t86 : errstate_mat.

#[global] Hint Unfold t32_t00 t32_t01 t32_t02 t32_t03 t32_t04 t32_t05 t32_t06 t32_t10 t32_t11 t32_t12 t32_t13 t32_t14 t32_t15 t32_t16 t32_t20 t32_t21 t32_t22 t32_t23 t32_t24 t32_t25 t32_t26 t32_t30 t32_t31 t32_t32 t32_t33 t32_t34 t32_t35 t32_t36 t32_t40 t32_t41 t32_t42 t32_t43 t32_t44 t32_t45 t32_t46 t32_t50 t32_t51 t32_t52 t32_t53 t32_t54 t32_t55 t32_t56 t32_t60 t32_t61 t32_t62 t32_t63 t32_t64 t32_t65 t32_t66 t32_t70 t32_t71 t32_t72 t32_t73 t32_t74 t32_t75 t32_t76 t32_t80 t32_t81 t32_t82 t32_t83 t32_t84 t32_t85 t32_t86 : errstate_mat.

#[global] Hint Unfold t23_t00 t23_t01 t23_t02 t23_t03 t23_t04 t23_t05 t23_t06 t23_t07 t23_t08 t23_t10 t23_t11 t23_t12 t23_t13 t23_t14 t23_t15 t23_t16 t23_t17 t23_t18 t23_t20 t23_t21 t23_t22 t23_t23 t23_t24 t23_t25 t23_t26 t23_t27 t23_t28 t23_t30 t23_t31 t23_t32 t23_t33 t23_t34 t23_t35 t23_t36 t23_t37 t23_t38 t23_t40 t23_t41 t23_t42 t23_t43 t23_t44 t23_t45 t23_t46 t23_t47 t23_t48 t23_t50 t23_t51 t23_t52 t23_t53 t23_t54 t23_t55 t23_t56 t23_t57 t23_t58 t23_t60 t23_t61 t23_t62 t23_t63 t23_t64 t23_t65 t23_t66 t23_t67 t23_t68 : errstate_mat.

#[global] Hint Unfold to_internal3d_arg_a00 to_internal3d_arg_a01 to_internal3d_arg_a02 to_internal3d_arg_a03 to_internal3d_arg_a04 to_internal3d_arg_a05 to_internal3d_arg_a06 to_internal3d_arg_a07 to_internal3d_arg_a08 to_internal3d_arg_a10 to_internal3d_arg_a11 to_internal3d_arg_a12 to_internal3d_arg_a13 to_internal3d_arg_a14 to_internal3d_arg_a15 to_internal3d_arg_a16 to_internal3d_arg_a17 to_internal3d_arg_a18 to_internal3d_arg_a20 to_internal3d_arg_a21 to_internal3d_arg_a22 to_internal3d_arg_a23 to_internal3d_arg_a24 to_internal3d_arg_a25 to_internal3d_arg_a26 to_internal3d_arg_a27 to_internal3d_arg_a28 to_internal3d_arg_a30 to_internal3d_arg_a31 to_internal3d_arg_a32 to_internal3d_arg_a33 to_internal3d_arg_a34 to_internal3d_arg_a35 to_internal3d_arg_a36 to_internal3d_arg_a37 to_internal3d_arg_a38 to_internal3d_arg_a40 to_internal3d_arg_a41 to_internal3d_arg_a42 to_internal3d_arg_a43 to_internal3d_arg_a44 to_internal3d_arg_a45 to_internal3d_arg_a46 to_internal3d_arg_a47 to_internal3d_arg_a48 to_internal3d_arg_a50 to_internal3d_arg_a51 to_internal3d_arg_a52 to_internal3d_arg_a53 to_internal3d_arg_a54 to_internal3d_arg_a55 to_internal3d_arg_a56 to_internal3d_arg_a57 to_internal3d_arg_a58 to_internal3d_arg_a60 to_internal3d_arg_a61 to_internal3d_arg_a62 to_internal3d_arg_a63 to_internal3d_arg_a64 to_internal3d_arg_a65 to_internal3d_arg_a66 to_internal3d_arg_a67 to_internal3d_arg_a68 to_internal3d_arg_a70 to_internal3d_arg_a71 to_internal3d_arg_a72 to_internal3d_arg_a73 to_internal3d_arg_a74 to_internal3d_arg_a75 to_internal3d_arg_a76 to_internal3d_arg_a77 to_internal3d_arg_a78 to_internal3d_arg_a80 to_internal3d_arg_a81 to_internal3d_arg_a82 to_internal3d_arg_a83 to_internal3d_arg_a84 to_internal3d_arg_a85 to_internal3d_arg_a86 to_internal3d_arg_a87 to_internal3d_arg_a88 : errstate_mat.

#[global] Hint Unfold to_internal2d_arg_a00 to_internal2d_arg_a01 to_internal2d_arg_a02 to_internal2d_arg_a03 to_internal2d_arg_a04 to_internal2d_arg_a05 to_internal2d_arg_a06 to_internal2d_arg_a07 to_internal2d_arg_a08 to_internal2d_arg_a10 to_internal2d_arg_a11 to_internal2d_arg_a12 to_internal2d_arg_a13 to_internal2d_arg_a14 to_internal2d_arg_a15 to_internal2d_arg_a16 to_internal2d_arg_a17 to_internal2d_arg_a18 to_internal2d_arg_a20 to_internal2d_arg_a21 to_internal2d_arg_a22 to_internal2d_arg_a23 to_internal2d_arg_a24 to_internal2d_arg_a25 to_internal2d_arg_a26 to_internal2d_arg_a27 to_internal2d_arg_a28 to_internal2d_arg_a30 to_internal2d_arg_a31 to_internal2d_arg_a32 to_internal2d_arg_a33 to_internal2d_arg_a34 to_internal2d_arg_a35 to_internal2d_arg_a36 to_internal2d_arg_a37 to_internal2d_arg_a38 to_internal2d_arg_a40 to_internal2d_arg_a41 to_internal2d_arg_a42 to_internal2d_arg_a43 to_internal2d_arg_a44 to_internal2d_arg_a45 to_internal2d_arg_a46 to_internal2d_arg_a47 to_internal2d_arg_a48 to_internal2d_arg_a50 to_internal2d_arg_a51 to_internal2d_arg_a52 to_internal2d_arg_a53 to_internal2d_arg_a54 to_internal2d_arg_a55 to_internal2d_arg_a56 to_internal2d_arg_a57 to_internal2d_arg_a58 to_internal2d_arg_a60 to_internal2d_arg_a61 to_internal2d_arg_a62 to_internal2d_arg_a63 to_internal2d_arg_a64 to_internal2d_arg_a65 to_internal2d_arg_a66 to_internal2d_arg_a67 to_internal2d_arg_a68 to_internal2d_arg_a70 to_internal2d_arg_a71 to_internal2d_arg_a72 to_internal2d_arg_a73 to_internal2d_arg_a74 to_internal2d_arg_a75 to_internal2d_arg_a76 to_internal2d_arg_a77 to_internal2d_arg_a78 to_internal2d_arg_a80 to_internal2d_arg_a81 to_internal2d_arg_a82 to_internal2d_arg_a83 to_internal2d_arg_a84 to_internal2d_arg_a85 to_internal2d_arg_a86 to_internal2d_arg_a87 to_internal2d_arg_a88 : errstate_mat.

#[global] Hint Unfold to_internal3d_t00 to_internal3d_t01 to_internal3d_t02 to_internal3d_t03 to_internal3d_t04 to_internal3d_t05 to_internal3d_t06 to_internal3d_t07 to_internal3d_t08 to_internal3d_t10 to_internal3d_t11 to_internal3d_t12 to_internal3d_t13 to_internal3d_t14 to_internal3d_t15 to_internal3d_t16 to_internal3d_t17 to_internal3d_t18 to_internal3d_t20 to_internal3d_t21 to_internal3d_t22 to_internal3d_t23 to_internal3d_t24 to_internal3d_t25 to_internal3d_t26 to_internal3d_t27 to_internal3d_t28 to_internal3d_t30 to_internal3d_t31 to_internal3d_t32 to_internal3d_t33 to_internal3d_t34 to_internal3d_t35 to_internal3d_t36 to_internal3d_t37 to_internal3d_t38 to_internal3d_t40 to_internal3d_t41 to_internal3d_t42 to_internal3d_t43 to_internal3d_t44 to_internal3d_t45 to_internal3d_t46 to_internal3d_t47 to_internal3d_t48 to_internal3d_t50 to_internal3d_t51 to_internal3d_t52 to_internal3d_t53 to_internal3d_t54 to_internal3d_t55 to_internal3d_t56 to_internal3d_t57 to_internal3d_t58 to_internal3d_t60 to_internal3d_t61 to_internal3d_t62 to_internal3d_t63 to_internal3d_t64 to_internal3d_t65 to_internal3d_t66 to_internal3d_t67 to_internal3d_t68 to_internal3d_t70 to_internal3d_t71 to_internal3d_t72 to_internal3d_t73 to_internal3d_t74 to_internal3d_t75 to_internal3d_t76 to_internal3d_t77 to_internal3d_t78 to_internal3d_t80 to_internal3d_t81 to_internal3d_t82 to_internal3d_t83 to_internal3d_t84 to_internal3d_t85 to_internal3d_t86 to_internal3d_t87 to_internal3d_t88 : errstate_mat.

#[global] Hint Unfold to_internal2d_t00 to_internal2d_t01 to_internal2d_t02 to_internal2d_t03 to_internal2d_t04 to_internal2d_t05 to_internal2d_t06 to_internal2d_t07 to_internal2d_t08 to_internal2d_t10 to_internal2d_t11 to_internal2d_t12 to_internal2d_t13 to_internal2d_t14 to_internal2d_t15 to_internal2d_t16 to_internal2d_t17 to_internal2d_t18 to_internal2d_t20 to_internal2d_t21 to_internal2d_t22 to_internal2d_t23 to_internal2d_t24 to_internal2d_t25 to_internal2d_t26 to_internal2d_t27 to_internal2d_t28 to_internal2d_t30 to_internal2d_t31 to_internal2d_t32 to_internal2d_t33 to_internal2d_t34 to_internal2d_t35 to_internal2d_t36 to_internal2d_t37 to_internal2d_t38 to_internal2d_t40 to_internal2d_t41 to_internal2d_t42 to_internal2d_t43 to_internal2d_t44 to_internal2d_t45 to_internal2d_t46 to_internal2d_t47 to_internal2d_t48 to_internal2d_t50 to_internal2d_t51 to_internal2d_t52 to_internal2d_t53 to_internal2d_t54 to_internal2d_t55 to_internal2d_t56 to_internal2d_t57 to_internal2d_t58 to_internal2d_t60 to_internal2d_t61 to_internal2d_t62 to_internal2d_t63 to_internal2d_t64 to_internal2d_t65 to_internal2d_t66 to_internal2d_t67 to_internal2d_t68 : errstate_mat.

(** ** B.1  generic facts about the little matrix product *)

Lemma sumN_ext n f g : (forall k, (k < n)%nat -> f k = g k) -> sumN n f = sumN n g.
Proof.
  induction n as [|n IH]; intro H; simpl; [reflexivity|].
  rewrite IH by (intros k Hk; apply H; lia). rewrite (H n) by lia. reflexivity.
Qed.

Lemma sumN_plus n f g : sumN n (fun k => f k + g k) = sumN n f + sumN n g.
Proof. induction n as [|n IH]; simpl; [ring|]. rewrite IH. ring. Qed.

Lemma sumN_scal_l n c f : sumN n (fun k => c * f k) = c * sumN n f.
Proof. induction n as [|n IH]; simpl; [ring|]. rewrite IH. ring. Qed.

Lemma sumN_scal_r n c f : sumN n (fun k => f k * c) = sumN n f * c.
Proof. induction n as [|n IH]; simpl; [ring|]. rewrite IH. ring. Qed.

Lemma sumN_zero n : sumN n (fun _ => 0) = 0.
Proof. induction n as [|n IH]; simpl; [reflexivity|]. rewrite IH. ring. Qed.

Lemma sumN_swap n m (f : nat -> nat -> R) :
  sumN n (fun k => sumN m (fun l => f k l)) = sumN m (fun l => sumN n (fun k => f k l)).
Proof.
  induction n as [|n IH]; simpl.
  - symmetry. apply sumN_zero.
  - rewrite IH. symmetry. apply sumN_plus.
Qed.

Lemma mmul_assoc n A B C i j : mmul n (mmul n A B) C i j = mmul n A (mmul n B C) i j.
Proof.
  unfold mmul.
  rewrite (sumN_ext n _ (fun k => sumN n (fun l => A i l * B l k * C k j)))
    by (intros k _; symmetry; apply sumN_scal_r).
  rewrite sumN_swap. apply sumN_ext. intros l _.
  rewrite <- sumN_scal_l. apply sumN_ext. intros k _. ring.
Qed.

Lemma mmul_ext n A A' B B' i j :
  (forall k, (k < n)%nat -> A i k = A' i k) -> (forall k, (k < n)%nat -> B k j = B' k j) ->
  mmul n A B i j = mmul n A' B' i j.
Proof.
  intros HA HB. unfold mmul. apply sumN_ext. intros k Hk. rewrite HA, HB by exact Hk. reflexivity.
Qed.

Lemma sumN_delta n i (f : nat -> R) : (i < n)%nat ->
  sumN n (fun k => (if Nat.eqb i k then 1 else 0) * f k) = f i.
Proof.
  induction n as [|n IH]; intro Hi; [lia|]. simpl.
  destruct (Nat.eq_dec i n) as [E|E].
  - subst i. rewrite Nat.eqb_refl.
    rewrite (sumN_ext n _ (fun _ => 0)).
    + rewrite sumN_zero. ring.
    + intros k Hk. replace (Nat.eqb n k) with false; [ring|].
      symmetry. apply Nat.eqb_neq. lia.
  - replace (Nat.eqb i n) with false by (symmetry; apply Nat.eqb_neq; exact E).
    rewrite IH by lia. ring.
Qed.

Lemma mmul_I_l n B i j : (i < n)%nat -> mmul n I_ B i j = B i j.
Proof. intro Hi. unfold mmul, I_. apply (sumN_delta n i (fun k => B k j)). exact Hi. Qed.

(** index case analysis: [i < 9] becomes the nine numerals *)
Ltac idx i := repeat (destruct i as [|i]; [|try (exfalso; lia)]).

(** ** B.2  the explicit inverse of the output transform *)

(** (d(rph)/d(phi))^-1 up to the factor pi/180 *)
Definition Ninv (roll pitch heading : R) (i j : nat) : R :=
  match i, j with
  | 0%nat, 0%nat => - cos (heading * (PI / 180)) * cos (pitch * (PI / 180))
  | 0%nat, 1%nat => sin (heading * (PI / 180))
  | 1%nat, 0%nat => - sin (heading * (PI / 180)) * cos (pitch * (PI / 180))
  | 1%nat, 1%nat => - cos (heading * (PI / 180))
  | 2%nat, 0%nat => sin (pitch * (PI / 180))
  | 2%nat, 2%nat => -1
  | _, _ => 0
  end.

(** T_inv = [[I 0 0] [0 I -V^x A^-1] [0 0 A^-1]] with A^-1 = Ninv * pi/180 *)
Definition Tinv3 (lat lon alt VN VE VD roll pitch heading : R) (i j : nat) : R :=
  let N := Ninv roll pitch heading in
  let k := PI / 180 in
  match i, j with
  | 0%nat, 0%nat => 1 | 1%nat, 1%nat => 1 | 2%nat, 2%nat => 1
  | 3%nat, 3%nat => 1 | 4%nat, 4%nat => 1 | 5%nat, 5%nat => 1
  | 3%nat, 6%nat => (VD * N 1%nat 0%nat - VE * N 2%nat 0%nat) * k
  | 3%nat, 7%nat => (VD * N 1%nat 1%nat - VE * N 2%nat 1%nat) * k
  | 3%nat, 8%nat => (VD * N 1%nat 2%nat - VE * N 2%nat 2%nat) * k
  | 4%nat, 6%nat => (VN * N 2%nat 0%nat - VD * N 0%nat 0%nat) * k
  | 4%nat, 7%nat => (VN * N 2%nat 1%nat - VD * N 0%nat 1%nat) * k
  | 4%nat, 8%nat => (VN * N 2%nat 2%nat - VD * N 0%nat 2%nat) * k
  | 5%nat, 6%nat => (VE * N 0%nat 0%nat - VN * N 1%nat 0%nat) * k
  | 5%nat, 7%nat => (VE * N 0%nat 1%nat - VN * N 1%nat 1%nat) * k
  | 5%nat, 8%nat => (VE * N 0%nat 2%nat - VN * N 1%nat 2%nat) * k
  | 6%nat, 6%nat => N 0%nat 0%nat * k | 6%nat, 7%nat => N 0%nat 1%nat * k | 6%nat, 8%nat => N 0%nat 2%nat * k
  | 7%nat, 6%nat => N 1%nat 0%nat * k | 7%nat, 7%nat => N 1%nat 1%nat * k | 7%nat, 8%nat => N 1%nat 2%nat * k
  | 8%nat, 6%nat => N 2%nat 0%nat * k | 8%nat, 7%nat => N 2%nat 1%nat * k | 8%nat, 8%nat => N 2%nat 2%nat * k
  | _, _ => 0
  end.

Ltac mat_entry :=
  cbv [mmul mvec sumN Tinv3 Ninv Tout3 Tout2 T32 T23 TintArg3 TintArg2 I_ Nat.eqb];
  autounfold with errstate_mat;
  autounfold with to_output3d_db to_output2d_db to_internal3d_arg_db to_internal2d_arg_db.

Lemma to_output_invertible lat lon alt VN VE VD roll pitch heading :
  cos (pitch * (PI / 180)) <> 0 ->
  meq 9 9 (mmul 9 (Tinv3 lat lon alt VN VE VD roll pitch heading)
                  (Tout3 lat lon alt VN VE VD roll pitch heading)) I_ /\
  meq 9 9 (mmul 9 (Tout3 lat lon alt VN VE VD roll pitch heading)
                  (Tinv3 lat lon alt VN VE VD roll pitch heading)) I_.
Proof.
  intro Hc. pose proof PI_neq0 as Hpi.
  assert (Hh : sin (heading * (PI / 180)) * sin (heading * (PI / 180)) =
               1 - cos (heading * (PI / 180)) * cos (heading * (PI / 180)))
    by (pose proof (sc1 (heading * (PI / 180))); lra).
  assert (Hp : sin (pitch * (PI / 180)) * sin (pitch * (PI / 180)) =
               1 - cos (pitch * (PI / 180)) * cos (pitch * (PI / 180)))
    by (pose proof (sc1 (pitch * (PI / 180))); lra).
  split; intros i j Hi Hj; idx i; idx j; mat_entry;
    first [ ring | field_simplify_eq; [ring [Hh Hp] | try split; assumption] ].
Qed.

Lemma sumN_delta_r n j (f : nat -> R) : (j < n)%nat ->
  sumN n (fun k => f k * (if Nat.eqb k j then 1 else 0)) = f j.
Proof.
  intro Hj. rewrite <- (sumN_delta n j f Hj). apply sumN_ext. intros k _.
  rewrite (Nat.eqb_sym k j). ring.
Qed.

Lemma mmul_I_r n A i j : (j < n)%nat -> mmul n A I_ i j = A i j.
Proof. intro Hj. unfold mmul, I_. apply (sumN_delta_r n j (fun k => A i k)). exact Hj. Qed.

(** ** B.3  the 2D (no-altitude) transforms *)

(** transform_to_output in 2D is the 3D matrix times _transform_3d_2d (as the source says) *)
Lemma out2d_is_product lat lon alt VN VE VD roll pitch heading :
  meq 9 7 (Tout2 lat lon alt VN VE VD roll pitch heading)
          (mmul 9 (Tout3 lat lon alt VN VE VD roll pitch heading) (T32 VN VE)).
Proof.
  intros i j Hi Hj; idx i; idx j; mat_entry; ring.
Qed.

(** TRANSFORM_2D_3D is a left inverse of _transform_3d_2d for every velocity *)
Lemma t23_t32_identity VN VE : meq 7 7 (mmul 9 T23 (T32 VN VE)) I_.
Proof.
  intros i j Hi Hj; idx i; idx j; mat_entry; ring.
Qed.

(** what transform_to_internal hands to np.linalg.inv is the 3D output transform, in both modes *)
Lemma internal_arg_is_output lat lon alt VN VE VD roll pitch heading :
  meq 9 9 (TintArg3 lat lon alt VN VE VD roll pitch heading) (Tout3 lat lon alt VN VE VD roll pitch heading) /\
  meq 9 9 (TintArg2 lat lon alt VN VE VD roll pitch heading) (Tout3 lat lon alt VN VE VD roll pitch heading).
Proof.
  split; intros i j Hi Hj; idx i; idx j; mat_entry; reflexivity.
Qed.

(** ... and what it returns is that inverse (3D), resp. its rows selected by TRANSFORM_2D_3D (2D) *)
Lemma internal_of_inv (inv : mat) :
  meq 9 9 (Tint3 inv) inv /\ meq 7 9 (Tint2 inv) (mmul 9 T23 inv).
Proof.
  split; intros i j Hi Hj; idx i; idx j; cbv [Tint3 Tint2 app81 mmul sumN T23];
    autounfold with errstate_mat; try reflexivity; ring.
Qed.

(** any left inverse of the output transform is the explicit one *)
Lemma inverse_unique (inv : mat) lat lon alt VN VE VD roll pitch heading :
  cos (pitch * (PI / 180)) <> 0 ->
  meq 9 9 (mmul 9 inv (Tout3 lat lon alt VN VE VD roll pitch heading)) I_ ->
  meq 9 9 inv (Tinv3 lat lon alt VN VE VD roll pitch heading).
Proof.
  intros Hc Hinv i j Hi Hj.
  destruct (to_output_invertible lat lon alt VN VE VD roll pitch heading Hc) as [_ Hr].
  set (To := Tout3 lat lon alt VN VE VD roll pitch heading) in *.
  set (Ti := Tinv3 lat lon alt VN VE VD roll pitch heading) in *.
  rewrite <- (mmul_I_r 9 inv i j Hj).
  rewrite (mmul_ext 9 inv inv I_ (mmul 9 To Ti) i j) by
    (intros k Hk; first [symmetry; apply Hr; assumption | reflexivity]).
  rewrite <- mmul_assoc.
  rewrite (mmul_ext 9 (mmul 9 inv To) I_ Ti Ti i j) by
    (intros k Hk; first [apply Hinv; assumption | reflexivity]).
  apply mmul_I_l. exact Hi.
Qed.

(** C05: in 2D the output-to-internal transform is a LEFT inverse of internal-to-output,
    for any primitive [inv] that inverts the 3D output transform *)
Lemma left_inverse_2d (inv : mat) lat lon alt VN VE VD roll pitch heading :
  meq 9 9 (mmul 9 inv (Tout3 lat lon alt VN VE VD roll pitch heading)) I_ ->
  meq 7 7 (mmul 9 (Tint2 inv) (Tout2 lat lon alt VN VE VD roll pitch heading)) I_.
Proof.
  intros Hinv i j Hi Hj.
  destruct (internal_of_inv inv) as [_ H2].
  pose proof (out2d_is_product lat lon alt VN VE VD roll pitch heading) as Hp.
  set (To := Tout3 lat lon alt VN VE VD roll pitch heading) in *.
  rewrite (mmul_ext 9 (Tint2 inv) (mmul 9 T23 inv) _ (mmul 9 To (T32 VN VE)) i j) by
    (intros k Hk; first [apply H2; [exact Hi|exact Hk] | apply Hp; [exact Hk|exact Hj]]).
  rewrite mmul_assoc.
  rewrite (mmul_ext 9 T23 T23 _ (T32 VN VE) i j);
    [apply t23_t32_identity; assumption | reflexivity |].
  intros k Hk. rewrite <- mmul_assoc.
  rewrite (mmul_ext 9 (mmul 9 inv To) I_ (T32 VN VE) (T32 VN VE) k j) by
    (intros l Hl; first [apply Hinv; assumption | reflexivity]).
  apply mmul_I_l. exact Hk.
Qed.

Lemma left_inverse_3d (inv : mat) lat lon alt VN VE VD roll pitch heading :
  meq 9 9 (mmul 9 inv (Tout3 lat lon alt VN VE VD roll pitch heading)) I_ ->
  meq 9 9 (mmul 9 (Tint3 inv) (Tout3 lat lon alt VN VE VD roll pitch heading)) I_.
Proof.
  intros Hinv i j Hi Hj. destruct (internal_of_inv inv) as [H3 _].
  rewrite (mmul_ext 9 (Tint3 inv) inv _ (Tout3 lat lon alt VN VE VD roll pitch heading) i j) by
    (intros k Hk; first [apply H3; assumption | reflexivity]).
  apply Hinv; assumption.
Qed.

(** C05 (d): in 2D the [down] and [VD] rows of the output transform are literally zero, and
    correct_pva returns altitude and vertical velocity unchanged, for every pva and every x *)
Lemma rows_2d_zero lat lon alt VN VE VD roll pitch heading :
  (forall j, (j < 7)%nat -> Tout2 lat lon alt VN VE VD roll pitch heading 2 j = 0 /\
                            Tout2 lat lon alt VN VE VD roll pitch heading 5 j = 0) /\
  (forall x0 x1 x2 x3 x4 x5 x6,
     correct2d_alt lat lon alt VN VE VD roll pitch heading x0 x1 x2 x3 x4 x5 x6 = alt /\
     correct2d_VD lat lon alt VN VE VD roll pitch heading x0 x1 x2 x3 x4 x5 x6 = VD).
Proof.
  split.
  - intros j Hj; idx j; mat_entry; split; ring.
  - intros. split; reflexivity.
Qed.

(** * Part C: correct_pva is linearised by the output transform (C05 b) *)

Definition vec9 (x0 x1 x2 x3 x4 x5 x6 x7 x8 : R) (k : nat) : R :=
  match k with 0%nat => x0 | 1%nat => x1 | 2%nat => x2 | 3%nat => x3 | 4%nat => x4 | 5%nat => x5
             | 6%nat => x6 | 7%nat => x7 | 8%nat => x8 | _ => 0 end.
Definition vec7 (x0 x1 x2 x3 x4 x5 x6 : R) (k : nat) : R :=
  match k with 0%nat => x0 | 1%nat => x1 | 2%nat => x2 | 3%nat => x3 | 4%nat => x4 | 5%nat => x5
             | 6%nat => x6 | _ => 0 end.

(** a component [f] of correct_pva (3D: 9 states, 2D: 7 states) along the ray  e |-> e * x *)
Definition along3 (f : R -> R -> R -> R -> R -> R -> R -> R -> R -> R -> R -> R -> R -> R -> R -> R -> R -> R -> R)
  (lat lon alt VN VE VD roll pitch heading x0 x1 x2 x3 x4 x5 x6 x7 x8 e : R) : R :=
  f lat lon alt VN VE VD roll pitch heading (e * x0) (e * x1) (e * x2) (e * x3) (e * x4) (e * x5)
    (e * x6) (e * x7) (e * x8).
Definition along2 (f : R -> R -> R -> R -> R -> R -> R -> R -> R -> R -> R -> R -> R -> R -> R -> R -> R)
  (lat lon alt VN VE VD roll pitch heading x0 x1 x2 x3 x4 x5 x6 e : R) : R :=
  f lat lon alt VN VE VD roll pitch heading (e * x0) (e * x1) (e * x2) (e * x3) (e * x4) (e * x5) (e * x6).

(** component [d] of compute_state_difference(pva, correct_pva(pva, e * x)) *)
Definition diff_after_correct3
  (d : R -> R -> R -> R -> R -> R -> R -> R -> R -> R -> R -> R -> R -> R -> R -> R -> R -> R -> R)
  (lat lon alt VN VE VD roll pitch heading x0 x1 x2 x3 x4 x5 x6 x7 x8 e : R) : R :=
  d lat lon alt VN VE VD roll pitch heading
    (along3 correct3d_lat lat lon alt VN VE VD roll pitch heading x0 x1 x2 x3 x4 x5 x6 x7 x8 e)
    (along3 correct3d_lon lat lon alt VN VE VD roll pitch heading x0 x1 x2 x3 x4 x5 x6 x7 x8 e)
    (along3 correct3d_alt lat lon alt VN VE VD roll pitch heading x0 x1 x2 x3 x4 x5 x6 x7 x8 e)
    (along3 correct3d_VN lat lon alt VN VE VD roll pitch heading x0 x1 x2 x3 x4 x5 x6 x7 x8 e)
    (along3 correct3d_VE lat lon alt VN VE VD roll pitch heading x0 x1 x2 x3 x4 x5 x6 x7 x8 e)
    (along3 correct3d_VD lat lon alt VN VE VD roll pitch heading x0 x1 x2 x3 x4 x5 x6 x7 x8 e)
    (along3 correct3d_roll lat lon alt VN VE VD roll pitch heading x0 x1 x2 x3 x4 x5 x6 x7 x8 e)
    (along3 correct3d_pitch lat lon alt VN VE VD roll pitch heading x0 x1 x2 x3 x4 x5 x6 x7 x8 e)
    (along3 correct3d_heading lat lon alt VN VE VD roll pitch heading x0 x1 x2 x3 x4 x5 x6 x7 x8 e).
Definition diff_after_correct2
  (d : R -> R -> R -> R -> R -> R -> R -> R -> R -> R -> R -> R -> R -> R -> R -> R -> R -> R -> R)
  (lat lon alt VN VE VD roll pitch heading x0 x1 x2 x3 x4 x5 x6 e : R) : R :=
  d lat lon alt VN VE VD roll pitch heading
    (along2 correct2d_lat lat lon alt VN VE VD roll pitch heading x0 x1 x2 x3 x4 x5 x6 e)
    (along2 correct2d_lon lat lon alt VN VE VD roll pitch heading x0 x1 x2 x3 x4 x5 x6 e)
    (along2 correct2d_alt lat lon alt VN VE VD roll pitch heading x0 x1 x2 x3 x4 x5 x6 e)
    (along2 correct2d_VN lat lon alt VN VE VD roll pitch heading x0 x1 x2 x3 x4 x5 x6 e)
    (along2 correct2d_VE lat lon alt VN VE VD roll pitch heading x0 x1 x2 x3 x4 x5 x6 e)
    (along2 correct2d_VD lat lon alt VN VE VD roll pitch heading x0 x1 x2 x3 x4 x5 x6 e)
    (along2 correct2d_roll lat lon alt VN VE VD roll pitch heading x0 x1 x2 x3 x4 x5 x6 e)
    (along2 correct2d_pitch lat lon alt VN VE VD roll pitch heading x0 x1 x2 x3 x4 x5 x6 e)
    (along2 correct2d_heading lat lon alt VN VE VD roll pitch heading x0 x1 x2 x3 x4 x5 x6 e).

Lemma rotvec_at0 a b c :
  rotvec_m00 (0 * a) (0 * b) (0 * c) = 1 /\ rotvec_m01 (0 * a) (0 * b) (0 * c) = 0 /\
  rotvec_m02 (0 * a) (0 * b) (0 * c) = 0 /\ rotvec_m10 (0 * a) (0 * b) (0 * c) = 0 /\
  rotvec_m11 (0 * a) (0 * b) (0 * c) = 1 /\ rotvec_m12 (0 * a) (0 * b) (0 * c) = 0 /\
  rotvec_m20 (0 * a) (0 * b) (0 * c) = 0 /\ rotvec_m21 (0 * a) (0 * b) (0 * c) = 0 /\
  rotvec_m22 (0 * a) (0 * b) (0 * c) = 1.
Proof.
  destruct (rotvec_ray a b c 0) as [R00 [R01 [R02 [R10 [R11 [R12 [R20 [R21 R22]]]]]]]].
  destruct (ray_at0 a b c) as [V00 [V01 [V02 [V10 [V11 [V12 [V20 [V21 V22]]]]]]]].
  rewrite R00, R01, R02, R10, R11, R12, R20, R21, R22. splits; assumption.
Qed.

Lemma is_derive_atan2_deg (f g : R -> R) t f' g' l :
  is_derive f t f' -> is_derive g t g' -> (0 < g t \/ f t <> 0) ->
  l = (g t * f' - f t * g') / (f t * f t + g t * g t) * (180 / PI) ->
  is_derive (fun s => atan2 (f s) (g s) * (180 / PI)) t l.
Proof.
  intros Hf Hg Ho ->. pose (a := fun s => atan2 (f s) (g s)).
  assert (Ha : is_derive a t ((g t * f' - f t * g') / (f t * f t + g t * g t)))
    by exact (is_derive_atan2 f g t f' g' Hf Hg Ho).
  change (is_derive (fun s => a s * (180 / PI)) t
    ((g t * f' - f t * g') / (f t * f t + g t * g t) * (180 / PI))).
  auto_derive; [exists ((g t * f' - f t * g') / (f t * f t + g t * g t)); exact Ha|].
  derive_val Ha. ring.
Qed.

(* replace the Rodrigues spec calls along the ray e * (a, b, c) by the closed forms *)
Ltac to_ray a b c :=
  eapply is_derive_ext;
  [ let e := fresh "e" in
    let R00 := fresh in let R01 := fresh in let R02 := fresh in
    let R10 := fresh in let R11 := fresh in let R12 := fresh in
    let R20 := fresh in let R21 := fresh in let R22 := fresh in
    intro e; cbv beta;
    destruct (rotvec_ray a b c e) as [R00 [R01 [R02 [R10 [R11 [R12 [R20 [R21 R22]]]]]]]];
    rewrite ?R00, ?R01, ?R02, ?R10, ?R11, ?R12, ?R20, ?R21, ?R22; reflexivity |].

Ltac ray_facts a b c :=
  let D00 := fresh "D00" in let D01 := fresh "D01" in let D02 := fresh "D02" in
  let D10 := fresh "D10" in let D11 := fresh "D11" in let D12 := fresh "D12" in
  let D20 := fresh "D20" in let D21 := fresh "D21" in let D22 := fresh "D22" in
  destruct (ray_derive a b c) as [D00 [D01 [D02 [D10 [D11 [D12 [D20 [D21 D22]]]]]]]];
  let V00 := fresh "V00" in let V01 := fresh "V01" in let V02 := fresh "V02" in
  let V10 := fresh "V10" in let V11 := fresh "V11" in let V12 := fresh "V12" in
  let V20 := fresh "V20" in let V21 := fresh "V21" in let V22 := fresh "V22" in
  destruct (ray_at0 a b c) as [V00 [V01 [V02 [V10 [V11 [V12 [V20 [V21 V22]]]]]]]];
  let Z00 := fresh "Z00" in let Z01 := fresh "Z01" in let Z02 := fresh "Z02" in
  let Z10 := fresh "Z10" in let Z11 := fresh "Z11" in let Z12 := fresh "Z12" in
  let Z20 := fresh "Z20" in let Z21 := fresh "Z21" in let Z22 := fresh "Z22" in
  destruct (rotvec_at0 a b c) as [Z00 [Z01 [Z02 [Z10 [Z11 [Z12 [Z20 [Z21 Z22]]]]]]]].

(* after auto_derive: discharge the [ex_derive (ray_mij ..) 0] obligations *)
Ltac ray_ex := splits; try exact I; try (eexists; eassumption).

(* use the recorded values / derivatives of the ray entries in the current goal *)
Ltac ray_vals :=
  repeat match goal with
  | H : is_derive (ray_m00 _ _ _) 0 _ |- _ => derive_val H; clear H
  | H : is_derive (ray_m01 _ _ _) 0 _ |- _ => derive_val H; clear H
  | H : is_derive (ray_m02 _ _ _) 0 _ |- _ => derive_val H; clear H
  | H : is_derive (ray_m10 _ _ _) 0 _ |- _ => derive_val H; clear H
  | H : is_derive (ray_m11 _ _ _) 0 _ |- _ => derive_val H; clear H
  | H : is_derive (ray_m12 _ _ _) 0 _ |- _ => derive_val H; clear H
  | H : is_derive (ray_m20 _ _ _) 0 _ |- _ => derive_val H; clear H
  | H : is_derive (ray_m21 _ _ _) 0 _ |- _ => derive_val H; clear H
  | H : is_derive (ray_m22 _ _ _) 0 _ |- _ => derive_val H; clear H
  end;
  repeat match goal with
  | H : ray_m00 _ _ _ 0 = _ |- _ => rewrite ?H; clear H
  | H : ray_m01 _ _ _ 0 = _ |- _ => rewrite ?H; clear H
  | H : ray_m02 _ _ _ 0 = _ |- _ => rewrite ?H; clear H
  | H : ray_m10 _ _ _ 0 = _ |- _ => rewrite ?H; clear H
  | H : ray_m11 _ _ _ 0 = _ |- _ => rewrite ?H; clear H
  | H : ray_m12 _ _ _ 0 = _ |- _ => rewrite ?H; clear H
  | H : ray_m20 _ _ _ 0 = _ |- _ => rewrite ?H; clear H
  | H : ray_m21 _ _ _ 0 = _ |- _ => rewrite ?H; clear H
  | H : ray_m22 _ _ _ 0 = _ |- _ => rewrite ?H; clear H
  | H : rotvec_m00 (0 * _) _ _ = _ |- _ => rewrite ?H; clear H
  | H : rotvec_m01 (0 * _) _ _ = _ |- _ => rewrite ?H; clear H
  | H : rotvec_m02 (0 * _) _ _ = _ |- _ => rewrite ?H; clear H
  | H : rotvec_m10 (0 * _) _ _ = _ |- _ => rewrite ?H; clear H
  | H : rotvec_m11 (0 * _) _ _ = _ |- _ => rewrite ?H; clear H
  | H : rotvec_m12 (0 * _) _ _ = _ |- _ => rewrite ?H; clear H
  | H : rotvec_m20 (0 * _) _ _ = _ |- _ => rewrite ?H; clear H
  | H : rotvec_m21 (0 * _) _ _ = _ |- _ => rewrite ?H; clear H
  | H : rotvec_m22 (0 * _) _ _ = _ |- _ => rewrite ?H; clear H
  end.

Lemma is_derive_e_times (rho : R -> R) l :
  ex_derive rho 0 -> rho 0 = l -> is_derive (fun e => e * rho e) 0 l.
Proof.
  intros Hex H0. auto_derive; [exact Hex|]. rewrite H0. ring.
Qed.

Lemma d2r_in_pi a : -180 < a < 180 -> - PI < a * (PI / 180) < PI.
Proof. intros [H1 H2]. pose proof PI_RGT_0. split; nra. Qed.

Ltac eqR := match goal with |- @eq _ ?a ?b => change (@eq R a b) end.

(* abbreviations for the six trigonometric values of (roll, pitch, heading) with sin^2 = 1 - cos^2 *)
Ltac trig_abbrev roll pitch heading :=
  set (cr := cos (roll * (PI / 180))) in *; set (sr := sin (roll * (PI / 180))) in *;
  set (cp := cos (pitch * (PI / 180))) in *; set (sp := sin (pitch * (PI / 180))) in *;
  set (ch := cos (heading * (PI / 180))) in *; set (sh := sin (heading * (PI / 180))) in *;
  assert (Hr : sr * sr = 1 - cr * cr) by (pose proof (sc1 (roll * (PI / 180))); unfold sr, cr; lra);
  assert (Hp : sp * sp = 1 - cp * cp) by (pose proof (sc1 (pitch * (PI / 180))); unfold sp, cp; lra);
  assert (Hh : sh * sh = 1 - ch * ch) by (pose proof (sc1 (heading * (PI / 180))); unfold sh, ch; lra).

(** ** A.4  geodesy of the generated position arithmetic, independent of how the source spells it

    Every generated function that moves a position by metres (perturb_lla inside correct_pva, perturb_pva, the
    position simulator) or differences two positions in metres (compute_lla_difference inside Position,
    compute_state_difference) is first CHARACTERISED in terms of the specification radii of Spec/Ellipsoid.v
    (proved by canonicalisation + field, so a respelling of the source does not matter); the analysis below
    only uses these characterisations. *)
Definition Rm (l : R) : R := R_meridian A_ E2_ (l * (PI / 180)).
Definition Rt (l : R) : R := R_transverse A_ E2_ (l * (PI / 180)).
(** degrees of latitude / longitude per metre north / east at (lat, alt) *)
Definition KN (lat alt : R) : R := / (Rm lat + alt) * (180 / PI).
Definition KE (lat alt : R) : R := / ((Rt lat + alt) * cos (lat * (PI / 180))) * (180 / PI).
(** metres north / east per degree at (latm, altm) *)
Definition QN (latm altm : R) : R := (Rm latm + altm) * (PI / 180).
Definition QE (latm altm : R) : R :=
  (Rt latm + altm) * sqrt (1 - sin (latm * (PI / 180)) * sin (latm * (PI / 180))) * (PI / 180).

Lemma KN_QN lat alt : -6000000 < alt -> KN lat alt * QN lat alt = 1.
Proof.
  intro Ha. unfold KN, QN, Rm. pose proof (R_meridian_ge (lat * (PI / 180))). pose proof PI_neq0.
  field. split; lra.
Qed.

Lemma KE_QE lat alt : -90 < lat < 90 -> -6000000 < alt -> KE lat alt * QE lat alt = 1.
Proof.
  intros Hl Ha. unfold KE, QE, Rt. pose proof (R_transverse_ge (lat * (PI / 180))). pose proof PI_neq0.
  pose proof (cos_d2r_pos lat Hl).
  rewrite (sqrt_1msin2 (lat * (PI / 180))) by lra. field. repeat split; lra.
Qed.

Lemma QN_ex_derive (l a : R -> R) t : ex_derive l t -> ex_derive a t -> ex_derive (fun e => QN (l e) (a e)) t.
Proof.
  intros Hl Ha. unfold QN, Rm.
  assert (Hm : ex_derive (fun e => R_meridian A_ E2_ (l e * (PI / 180))) t).
  { apply (R_meridian_ex_derive (fun e => l e * (PI / 180))). auto_derive. exact Hl. }
  set (m := fun e => R_meridian A_ E2_ (l e * (PI / 180))) in *.
  change (ex_derive (fun e => (m e + a e) * (PI / 180)) t). auto_derive. repeat split; assumption.
Qed.

Lemma QE_ex_derive (l a : R -> R) t : -90 < l t < 90 ->
  ex_derive l t -> ex_derive a t -> ex_derive (fun e => QE (l e) (a e)) t.
Proof.
  intros Hr Hl Ha. unfold QE, Rt.
  assert (Hm : ex_derive (fun e => R_transverse A_ E2_ (l e * (PI / 180))) t).
  { apply (R_transverse_ex_derive (fun e => l e * (PI / 180))). auto_derive. exact Hl. }
  set (m := fun e => R_transverse A_ E2_ (l e * (PI / 180))) in *.
  change (ex_derive (fun e => (m e + a e) *
            sqrt (1 - sin (l e * (PI / 180)) * sin (l e * (PI / 180))) * (PI / 180)) t).
  pose proof (cos_d2r_pos (l t) Hr) as Hc. pose proof (sc1 (l t * (PI / 180))) as Hsc.
  auto_derive. repeat split; try assumption. nra.
Qed.

(* the characterisation proofs: unfold everything generated, canonicalise, field *)
Ltac geo_field lat :=
  unfold KN, KE, QN, QE, Rm, Rt, R_meridian, R_transverse, W2, A_, E2_; canon;
  rewrite ?(sqrt_1msin2 (lat * (PI / 180))) by (apply cos_d2r_nonneg; lra);
  let phi := fresh "phi" in set (phi := lat * (PI / 180)) in *; with_q phi;
  match goal with q := sqrt _ |- _ => radii_facts q;
    splits; first [ ring | field; radii_side q ] end.

Lemma correct3d_lla_char lat lon alt VN VE VD roll pitch heading x0 x1 x2 x3 x4 x5 x6 x7 x8 :
  -90 < lat < 90 -> -6000000 < alt ->
  correct3d_lat lat lon alt VN VE VD roll pitch heading x0 x1 x2 x3 x4 x5 x6 x7 x8 = lat - x0 * KN lat alt /\
  correct3d_lon lat lon alt VN VE VD roll pitch heading x0 x1 x2 x3 x4 x5 x6 x7 x8 = lon - x1 * KE lat alt /\
  correct3d_alt lat lon alt VN VE VD roll pitch heading x0 x1 x2 x3 x4 x5 x6 x7 x8 = alt + x2.
Proof.
  intros Hlat Halt. pose proof (cos_d2r_pos lat Hlat) as Hc.
  unfold correct3d_lat, correct3d_lon, correct3d_alt. repeat autounfold with correct3d_db. geo_field lat.
Qed.

Lemma correct2d_lla_char lat lon alt VN VE VD roll pitch heading x0 x1 x2 x3 x4 x5 x6 :
  -90 < lat < 90 -> -6000000 < alt ->
  correct2d_lat lat lon alt VN VE VD roll pitch heading x0 x1 x2 x3 x4 x5 x6 = lat - x0 * KN lat alt /\
  correct2d_lon lat lon alt VN VE VD roll pitch heading x0 x1 x2 x3 x4 x5 x6 = lon - x1 * KE lat alt /\
  correct2d_alt lat lon alt VN VE VD roll pitch heading x0 x1 x2 x3 x4 x5 x6 = alt.
Proof.
  intros Hlat Halt. pose proof (cos_d2r_pos lat Hlat) as Hc.
  unfold correct2d_lat, correct2d_lon, correct2d_alt. repeat autounfold with correct2d_db. geo_field lat.
Qed.

Lemma perturb_pva_lla_char lat lon alt VN VE VD roll pitch heading e0 e1 e2 e3 e4 e5 e6 e7 e8 :
  -90 < lat < 90 -> -6000000 < alt ->
  perturb_pva_lat lat lon alt VN VE VD roll pitch heading e0 e1 e2 e3 e4 e5 e6 e7 e8 = lat + e0 * KN lat alt /\
  perturb_pva_lon lat lon alt VN VE VD roll pitch heading e0 e1 e2 e3 e4 e5 e6 e7 e8 = lon + e1 * KE lat alt /\
  perturb_pva_alt lat lon alt VN VE VD roll pitch heading e0 e1 e2 e3 e4 e5 e6 e7 e8 = alt - e2.
Proof.
  intros Hlat Halt. pose proof (cos_d2r_pos lat Hlat) as Hc.
  unfold perturb_pva_lat, perturb_pva_lon, perturb_pva_alt. repeat autounfold with perturb_pva_db. geo_field lat.
Qed.

Lemma sim_pos_char lat lon alt VN VE VD roll pitch heading s n0 n1 n2 :
  -90 < lat < 90 -> -6000000 < alt ->
  sim_pos_lat lat lon alt VN VE VD roll pitch heading s n0 n1 n2 = lat + s * n0 * KN lat alt /\
  sim_pos_lon lat lon alt VN VE VD roll pitch heading s n0 n1 n2 = lon + s * n1 * KE lat alt /\
  sim_pos_alt lat lon alt VN VE VD roll pitch heading s n0 n1 n2 = alt - s * n2.
Proof.
  intros Hlat Halt. pose proof (cos_d2r_pos lat Hlat) as Hc.
  unfold sim_pos_lat, sim_pos_lon, sim_pos_alt. repeat autounfold with sim_pos_db. geo_field lat.
Qed.

(** compute_state_difference, position rows: degrees times the metres-per-degree at the mid point *)
Lemma state_diff_ned_char lat1 lon1 alt1 VN1 VE1 VD1 roll1 pitch1 heading1
                          lat2 lon2 alt2 VN2 VE2 VD2 roll2 pitch2 heading2 :
  let latm := 1 / 2 * (lat1 + lat2) in let altm := 1 / 2 * (alt1 + alt2) in
  state_diff_north lat1 lon1 alt1 VN1 VE1 VD1 roll1 pitch1 heading1 lat2 lon2 alt2 VN2 VE2 VD2 roll2 pitch2 heading2
    = (lat1 - lat2) * QN latm altm /\
  state_diff_east lat1 lon1 alt1 VN1 VE1 VD1 roll1 pitch1 heading1 lat2 lon2 alt2 VN2 VE2 VD2 roll2 pitch2 heading2
    = (lon1 - lon2) * QE latm altm /\
  state_diff_down lat1 lon1 alt1 VN1 VE1 VD1 roll1 pitch1 heading1 lat2 lon2 alt2 VN2 VE2 VD2 roll2 pitch2 heading2
    = alt2 - alt1.
Proof.
  cbv zeta. unfold state_diff_north, state_diff_east, state_diff_down. repeat autounfold with state_diff_db.
  unfold QN, QE, Rm, Rt, R_meridian, R_transverse, W2, A_, E2_.
  canon_angle (1 / 2 * (lat1 + lat2) * (PI / 180)). canon.
  set (phim := 1 / 2 * (lat1 + lat2) * (PI / 180)). with_q phim.
  split; [|split]; [field; lra | field; lra | ring].
Qed.

(** compute_lla_difference (as used by Position), same form *)
Lemma lla_diff_char lat1 lon1 alt1 lat2 lon2 alt2 :
  let latm := 1 / 2 * (lat1 + lat2) in let altm := 1 / 2 * (alt1 + alt2) in
  compute_lla_difference_d0 lat1 lon1 alt1 lat2 lon2 alt2 = (lat1 - lat2) * QN latm altm /\
  compute_lla_difference_d1 lat1 lon1 alt1 lat2 lon2 alt2 = (lon1 - lon2) * QE latm altm /\
  compute_lla_difference_d2 lat1 lon1 alt1 lat2 lon2 alt2 = alt2 - alt1.
Proof.
  cbv zeta. destruct (lla_difference_char lat1 lon1 alt1 lat2 lon2 alt2) as [H0 [H1 H2]]. cbv zeta in *.
  rewrite H0, H1, H2. unfold QN, QE, Rm, Rt. splits; ring.
Qed.

Lemma KN_ex_derive (l a : R -> R) t : ex_derive l t -> ex_derive a t -> -6000000 < a t ->
  ex_derive (fun e => KN (l e) (a e)) t.
Proof.
  intros Hl Ha Hr. unfold KN, Rm.
  assert (Hm : ex_derive (fun e => R_meridian A_ E2_ (l e * (PI / 180))) t).
  { apply (R_meridian_ex_derive (fun e => l e * (PI / 180))). auto_derive. exact Hl. }
  pose proof (R_meridian_ge (l t * (PI / 180))) as Hge.
  set (m := fun e => R_meridian A_ E2_ (l e * (PI / 180))) in *.
  change (ex_derive (fun e => / (m e + a e) * (180 / PI)) t). auto_derive.
  repeat split; try assumption. unfold m. lra.
Qed.

Lemma KE_ex_derive (l a : R -> R) t : ex_derive l t -> ex_derive a t -> -90 < l t < 90 -> -6000000 < a t ->
  ex_derive (fun e => KE (l e) (a e)) t.
Proof.
  intros Hl Ha Hlr Hr. unfold KE, Rt.
  assert (Hm : ex_derive (fun e => R_transverse A_ E2_ (l e * (PI / 180))) t).
  { apply (R_transverse_ex_derive (fun e => l e * (PI / 180))). auto_derive. exact Hl. }
  pose proof (R_transverse_ge (l t * (PI / 180))) as Hge. pose proof (cos_d2r_pos (l t) Hlr) as Hc.
  set (m := fun e => R_transverse A_ E2_ (l e * (PI / 180))) in *.
  change (ex_derive (fun e => / ((m e + a e) * cos (l e * (PI / 180))) * (180 / PI)) t). auto_derive.
  repeat split; try assumption. unfold m. apply Rgt_not_eq. apply Rmult_lt_0_compat; lra.
Qed.

(** e |-> e * (c * KN(lat, alt) * QN(l e, a e)) with (l, a)(0) = (lat, alt): derivative c (a shift of c metres
    north, measured in metres again); likewise east *)
Lemma is_derive_north (c : R) (l a : R -> R) lat alt :
  ex_derive l 0 -> ex_derive a 0 -> l 0 = lat -> a 0 = alt -> -6000000 < alt ->
  is_derive (fun e => e * (c * KN lat alt * QN (l e) (a e))) 0 c.
Proof.
  intros Hl Ha L0 A0 Hr. apply is_derive_e_times.
  - pose proof (QN_ex_derive l a 0 Hl Ha) as HQ. set (Q := fun e => QN (l e) (a e)) in *.
    change (ex_derive (fun e => c * KN lat alt * Q e) 0). auto_derive. exact HQ.
  - rewrite L0, A0, Rmult_assoc, KN_QN by exact Hr. ring.
Qed.

Lemma is_derive_east (c : R) (l a : R -> R) lat alt :
  ex_derive l 0 -> ex_derive a 0 -> l 0 = lat -> a 0 = alt -> -90 < lat < 90 -> -6000000 < alt ->
  is_derive (fun e => e * (c * KE lat alt * QE (l e) (a e))) 0 c.
Proof.
  intros Hl Ha L0 A0 Hlr Hr. apply is_derive_e_times.
  - assert (Hl0 : -90 < l 0 < 90) by (rewrite L0; exact Hlr).
    pose proof (QE_ex_derive l a 0 Hl0 Hl Ha) as HQ. set (Q := fun e => QE (l e) (a e)) in *.
    change (ex_derive (fun e => c * KE lat alt * Q e) 0). auto_derive. exact HQ.
  - rewrite L0, A0, Rmult_assoc, KE_QE by assumption. ring.
Qed.

(* side goals of the two lemmas above for affine l, a *)
Ltac affine_side := first [ auto_derive; exact I | cbv beta; try field; try lra ].

(** the same facts as rewriting rules *)
Lemma state_diff_north_eq lat1 lon1 alt1 VN1 VE1 VD1 roll1 pitch1 heading1 lat2 lon2 alt2 VN2 VE2 VD2 roll2 pitch2 heading2 :
  state_diff_north lat1 lon1 alt1 VN1 VE1 VD1 roll1 pitch1 heading1 lat2 lon2 alt2 VN2 VE2 VD2 roll2 pitch2 heading2
    = (lat1 - lat2) * QN (1 / 2 * (lat1 + lat2)) (1 / 2 * (alt1 + alt2)).
Proof. exact (proj1 (state_diff_ned_char lat1 lon1 alt1 VN1 VE1 VD1 roll1 pitch1 heading1 lat2 lon2 alt2 VN2 VE2 VD2 roll2 pitch2 heading2)). Qed.
Lemma state_diff_east_eq lat1 lon1 alt1 VN1 VE1 VD1 roll1 pitch1 heading1 lat2 lon2 alt2 VN2 VE2 VD2 roll2 pitch2 heading2 :
  state_diff_east lat1 lon1 alt1 VN1 VE1 VD1 roll1 pitch1 heading1 lat2 lon2 alt2 VN2 VE2 VD2 roll2 pitch2 heading2
    = (lon1 - lon2) * QE (1 / 2 * (lat1 + lat2)) (1 / 2 * (alt1 + alt2)).
Proof. exact (proj1 (proj2 (state_diff_ned_char lat1 lon1 alt1 VN1 VE1 VD1 roll1 pitch1 heading1 lat2 lon2 alt2 VN2 VE2 VD2 roll2 pitch2 heading2))). Qed.
Lemma lla_diff0_eq lat1 lon1 alt1 lat2 lon2 alt2 :
  compute_lla_difference_d0 lat1 lon1 alt1 lat2 lon2 alt2 = (lat1 - lat2) * QN (1 / 2 * (lat1 + lat2)) (1 / 2 * (alt1 + alt2)).
Proof. exact (proj1 (lla_diff_char lat1 lon1 alt1 lat2 lon2 alt2)). Qed.
Lemma lla_diff1_eq lat1 lon1 alt1 lat2 lon2 alt2 :
  compute_lla_difference_d1 lat1 lon1 alt1 lat2 lon2 alt2 = (lon1 - lon2) * QE (1 / 2 * (lat1 + lat2)) (1 / 2 * (alt1 + alt2)).
Proof. exact (proj1 (proj2 (lla_diff_char lat1 lon1 alt1 lat2 lon2 alt2))). Qed.
Lemma lla_diff2_eq lat1 lon1 alt1 lat2 lon2 alt2 :
  compute_lla_difference_d2 lat1 lon1 alt1 lat2 lon2 alt2 = alt2 - alt1.
Proof. exact (proj2 (proj2 (lla_diff_char lat1 lon1 alt1 lat2 lon2 alt2))). Qed.

Section GeoEq.
Variables lat lon alt VN VE VD roll pitch heading : R.
Hypothesis Hlat : -90 < lat < 90.
Hypothesis Halt : -6000000 < alt.
Lemma correct3d_lat_eq x0 x1 x2 x3 x4 x5 x6 x7 x8 :
  correct3d_lat lat lon alt VN VE VD roll pitch heading x0 x1 x2 x3 x4 x5 x6 x7 x8 = lat - x0 * KN lat alt.
Proof. apply correct3d_lla_char; assumption. Qed.
Lemma correct3d_lon_eq x0 x1 x2 x3 x4 x5 x6 x7 x8 :
  correct3d_lon lat lon alt VN VE VD roll pitch heading x0 x1 x2 x3 x4 x5 x6 x7 x8 = lon - x1 * KE lat alt.
Proof. apply correct3d_lla_char; assumption. Qed.
Lemma correct3d_alt_eq x0 x1 x2 x3 x4 x5 x6 x7 x8 :
  correct3d_alt lat lon alt VN VE VD roll pitch heading x0 x1 x2 x3 x4 x5 x6 x7 x8 = alt + x2.
Proof. apply correct3d_lla_char; assumption. Qed.
Lemma correct2d_lat_eq x0 x1 x2 x3 x4 x5 x6 :
  correct2d_lat lat lon alt VN VE VD roll pitch heading x0 x1 x2 x3 x4 x5 x6 = lat - x0 * KN lat alt.
Proof. apply correct2d_lla_char; assumption. Qed.
Lemma correct2d_lon_eq x0 x1 x2 x3 x4 x5 x6 :
  correct2d_lon lat lon alt VN VE VD roll pitch heading x0 x1 x2 x3 x4 x5 x6 = lon - x1 * KE lat alt.
Proof. apply correct2d_lla_char; assumption. Qed.
Lemma correct2d_alt_eq x0 x1 x2 x3 x4 x5 x6 :
  correct2d_alt lat lon alt VN VE VD roll pitch heading x0 x1 x2 x3 x4 x5 x6 = alt.
Proof. apply correct2d_lla_char; assumption. Qed.
Lemma perturb_pva_lat_eq e0 e1 e2 e3 e4 e5 e6 e7 e8 :
  perturb_pva_lat lat lon alt VN VE VD roll pitch heading e0 e1 e2 e3 e4 e5 e6 e7 e8 = lat + e0 * KN lat alt.
Proof. apply perturb_pva_lla_char; assumption. Qed.
Lemma perturb_pva_lon_eq e0 e1 e2 e3 e4 e5 e6 e7 e8 :
  perturb_pva_lon lat lon alt VN VE VD roll pitch heading e0 e1 e2 e3 e4 e5 e6 e7 e8 = lon + e1 * KE lat alt.
Proof. apply perturb_pva_lla_char; assumption. Qed.
Lemma perturb_pva_alt_eq e0 e1 e2 e3 e4 e5 e6 e7 e8 :
  perturb_pva_alt lat lon alt VN VE VD roll pitch heading e0 e1 e2 e3 e4 e5 e6 e7 e8 = alt - e2.
Proof. apply perturb_pva_lla_char; assumption. Qed.
Lemma sim_pos_lat_eq s n0 n1 n2 :
  sim_pos_lat lat lon alt VN VE VD roll pitch heading s n0 n1 n2 = lat + s * n0 * KN lat alt.
Proof. apply sim_pos_char; assumption. Qed.
Lemma sim_pos_lon_eq s n0 n1 n2 :
  sim_pos_lon lat lon alt VN VE VD roll pitch heading s n0 n1 n2 = lon + s * n1 * KE lat alt.
Proof. apply sim_pos_char; assumption. Qed.
Lemma sim_pos_alt_eq s n0 n1 n2 :
  sim_pos_alt lat lon alt VN VE VD roll pitch heading s n0 n1 n2 = alt - s * n2.
Proof. apply sim_pos_char; assumption. Qed.
End GeoEq.

Lemma locally_between (u : R -> R) lo hi : ex_derive u 0 -> lo < u 0 < hi -> locally 0 (fun e => lo < u e < hi).
Proof.
  intros [l Hu] [H1 H2].
  assert (Hc : continuous u 0) by (apply (derive_cont u 0 l); exact Hu).
  assert (L1 : locally 0 (fun e => 0 < u e - lo)).
  { apply (locally_pos (fun e => u e - lo)); [|lra].
    apply (continuous_minus (V := R_NormedModule) u (fun _ => lo)); [exact Hc | apply continuous_const]. }
  assert (L2 : locally 0 (fun e => 0 < hi - u e)).
  { apply (locally_pos (fun e => hi - u e)); [|lra].
    apply (continuous_minus (V := R_NormedModule) (fun _ => hi) u); [apply continuous_const | exact Hc]. }
  generalize (filter_and _ _ L1 L2). apply filter_imp. intros e [A B]. lra.
Qed.

Lemma perturb_pva_zero lat lon alt VN VE VD roll pitch heading E0 E1 E2 E3 E4 E5 E6 E7 E8 :
  perturb_pva_lat lat lon alt VN VE VD roll pitch heading (0 * E0) (0 * E1) (0 * E2) (0 * E3) (0 * E4) (0 * E5) (0 * E6) (0 * E7) (0 * E8) = lat /\
  perturb_pva_lon lat lon alt VN VE VD roll pitch heading (0 * E0) (0 * E1) (0 * E2) (0 * E3) (0 * E4) (0 * E5) (0 * E6) (0 * E7) (0 * E8) = lon /\
  perturb_pva_alt lat lon alt VN VE VD roll pitch heading (0 * E0) (0 * E1) (0 * E2) (0 * E3) (0 * E4) (0 * E5) (0 * E6) (0 * E7) (0 * E8) = alt /\
  perturb_pva_VN lat lon alt VN VE VD roll pitch heading (0 * E0) (0 * E1) (0 * E2) (0 * E3) (0 * E4) (0 * E5) (0 * E6) (0 * E7) (0 * E8) = VN /\
  perturb_pva_VE lat lon alt VN VE VD roll pitch heading (0 * E0) (0 * E1) (0 * E2) (0 * E3) (0 * E4) (0 * E5) (0 * E6) (0 * E7) (0 * E8) = VE /\
  perturb_pva_VD lat lon alt VN VE VD roll pitch heading (0 * E0) (0 * E1) (0 * E2) (0 * E3) (0 * E4) (0 * E5) (0 * E6) (0 * E7) (0 * E8) = VD /\
  perturb_pva_roll lat lon alt VN VE VD roll pitch heading (0 * E0) (0 * E1) (0 * E2) (0 * E3) (0 * E4) (0 * E5) (0 * E6) (0 * E7) (0 * E8) = roll /\
  perturb_pva_pitch lat lon alt VN VE VD roll pitch heading (0 * E0) (0 * E1) (0 * E2) (0 * E3) (0 * E4) (0 * E5) (0 * E6) (0 * E7) (0 * E8) = pitch /\
  perturb_pva_heading lat lon alt VN VE VD roll pitch heading (0 * E0) (0 * E1) (0 * E2) (0 * E3) (0 * E4) (0 * E5) (0 * E6) (0 * E7) (0 * E8) = heading.
Proof.
  unfold perturb_pva_lat, perturb_pva_lon, perturb_pva_alt, perturb_pva_VN, perturb_pva_VE, perturb_pva_VD,
    perturb_pva_roll, perturb_pva_pitch, perturb_pva_heading, Rdiv. splits; ring.
Qed.


Lemma is_derive_const_minus (f : R -> R) c t l :
  is_derive f t l -> is_derive (fun e => c - f e) t (- l).
Proof.
  intro H. auto_derive; [exists l; exact H|]. derive_val H. ring.
Qed.

Section Correct3D.
Variables lat lon alt VN VE VD roll pitch heading : R.
Variables x0 x1 x2 x3 x4 x5 x6 x7 x8 : R.
Hypothesis Hlat : -90 < lat < 90.
Hypothesis Halt : -1000000 <= alt.
Hypothesis Hroll : -180 < roll < 180.
Hypothesis Hpitch : -90 < pitch < 90.
Hypothesis Hheading : -180 < heading < 180.

Let T := Tout3 lat lon alt VN VE VD roll pitch heading.
Let x := vec9 x0 x1 x2 x3 x4 x5 x6 x7 x8.
Let A3 (f : R -> R -> R -> R -> R -> R -> R -> R -> R -> R -> R -> R -> R -> R -> R -> R -> R -> R -> R) :=
  along3 f lat lon alt VN VE VD roll pitch heading x0 x1 x2 x3 x4 x5 x6 x7 x8.
Let D3 (d : R -> R -> R -> R -> R -> R -> R -> R -> R -> R -> R -> R -> R -> R -> R -> R -> R -> R -> R) :=
  diff_after_correct3 d lat lon alt VN VE VD roll pitch heading x0 x1 x2 x3 x4 x5 x6 x7 x8.

(** *** the nine components of correct_pva along the ray: derivative at 0 *)

Lemma corr3_VN : is_derive (A3 correct3d_VN) 0 (- mvec 9 T x 3).
Proof.
  unfold A3, along3, correct3d_VN. ray_facts x6 x7 x8. to_ray x6 x7 x8.
  auto_derive; [ray_ex|]. ray_vals. unfold T, x. mat_entry. cbv [vec9]. ring.
Qed.

Lemma corr3_VE : is_derive (A3 correct3d_VE) 0 (- mvec 9 T x 4).
Proof.
  unfold A3, along3, correct3d_VE. ray_facts x6 x7 x8. to_ray x6 x7 x8.
  auto_derive; [ray_ex|]. ray_vals. unfold T, x. mat_entry. cbv [vec9]. ring.
Qed.

Lemma corr3_VD : is_derive (A3 correct3d_VD) 0 (- mvec 9 T x 5).
Proof.
  unfold A3, along3, correct3d_VD. ray_facts x6 x7 x8. to_ray x6 x7 x8.
  auto_derive; [ray_ex|]. ray_vals. unfold T, x. mat_entry. cbv [vec9]. ring.
Qed.

Lemma corr3_alt : is_derive (A3 correct3d_alt) 0 (mvec 9 T x 2).
Proof.
  unfold A3, along3, correct3d_alt. auto_derive; [exact I|]. unfold T, x. mat_entry. cbv [vec9]. ring.
Qed.

Lemma corr3_roll : is_derive (A3 correct3d_roll) 0 (- mvec 9 T x 6).
Proof.
  unfold A3, along3, correct3d_roll, euler_roll.
  ray_facts x6 x7 x8.
  pose proof (cos_d2r_pos pitch Hpitch) as Hcp.
  eapply is_derive_atan2_deg.
  - to_ray x6 x7 x8. auto_derive; [ray_ex|]. reflexivity.
  - to_ray x6 x7 x8. auto_derive; [ray_ex|]. reflexivity.
  - cbv beta. ray_vals. autounfold with correct3d_db.
    destruct (polar_offcut _ (d2r_in_pi roll Hroll)) as [Hc|Hs]; [left|right]; nra.
  - cbv beta. ray_vals. autounfold with correct3d_db. unfold T, x. mat_entry. cbv [vec9].
    trig_abbrev roll pitch heading. pose proof PI_neq0 as Hpi.
    match goal with |- _ = _ / ?D * _ => replace D with (cp * cp) by (ring [Hr]) end.
    field_simplify_eq; [ring [Hr Hp Hh] | split; [assumption | lra]].
Qed.

Lemma corr3_heading : is_derive (A3 correct3d_heading) 0 (- mvec 9 T x 8).
Proof.
  unfold A3, along3, correct3d_heading, euler_heading.
  ray_facts x6 x7 x8.
  pose proof (cos_d2r_pos pitch Hpitch) as Hcp.
  eapply is_derive_atan2_deg.
  - to_ray x6 x7 x8. auto_derive; [ray_ex|]. reflexivity.
  - to_ray x6 x7 x8. auto_derive; [ray_ex|]. reflexivity.
  - cbv beta. ray_vals. autounfold with correct3d_db.
    destruct (polar_offcut _ (d2r_in_pi heading Hheading)) as [Hc|Hs]; [left|right]; nra.
  - cbv beta. ray_vals. autounfold with correct3d_db. unfold T, x. mat_entry. cbv [vec9].
    trig_abbrev roll pitch heading. pose proof PI_neq0 as Hpi.
    match goal with |- _ = _ / ?D * _ => replace D with (cp * cp) by (ring [Hh]) end.
    field_simplify_eq; [ring [Hr Hp Hh] | split; [assumption | lra]].
Qed.

Lemma corr3_pitch : is_derive (A3 correct3d_pitch) 0 (- mvec 9 T x 7).
Proof.
  unfold A3, along3, correct3d_pitch, euler_pitch.
  ray_facts x6 x7 x8.
  pose proof (cos_d2r_pos pitch Hpitch) as Hcp.
  eapply is_derive_atan2_deg.
  - to_ray x6 x7 x8. auto_derive; [ray_ex|]. reflexivity.
  - to_ray x6 x7 x8.
    auto_derive; [ray_ex; ray_vals; autounfold with correct3d_db; trig_abbrev roll pitch heading;
                  match goal with |- 0 < ?E => replace E with (cp * cp) by (ring [Hr]) end; nra
                 | reflexivity].
  - cbv beta. ray_vals. autounfold with correct3d_db. left. apply sqrt_lt_R0.
    trig_abbrev roll pitch heading.
    match goal with |- 0 < ?E => replace E with (cp * cp) by (ring [Hr]) end; nra.
  - cbv beta. ray_vals. autounfold with correct3d_db. unfold T, x. mat_entry. cbv [vec9].
    trig_abbrev roll pitch heading. pose proof PI_neq0 as Hpi.
    repeat match goal with |- context [sqrt ?E] =>
      replace (sqrt E) with cp by
        (symmetry; replace E with (cp * cp) by (ring [Hr]); apply sqrt_square; lra) end.
    match goal with |- _ = _ / ?D * _ => replace D with 1 by (ring [Hp]) end.
    field_simplify_eq; [ring [Hr Hp Hh] | split; [assumption | lra]].
Qed.

(** latitude / longitude are affine in x0 / x1, so the derivative along the ray is the increment itself *)
Lemma corr3_lat : is_derive (A3 correct3d_lat) 0
  (correct3d_lat lat lon alt VN VE VD roll pitch heading x0 x1 x2 x3 x4 x5 x6 x7 x8 - lat).
Proof.
  unfold A3, along3, correct3d_lat. auto_derive; [exact I|]. unfold Rdiv. ring.
Qed.

Lemma corr3_lon : is_derive (A3 correct3d_lon) 0
  (correct3d_lon lat lon alt VN VE VD roll pitch heading x0 x1 x2 x3 x4 x5 x6 x7 x8 - lon).
Proof.
  unfold A3, along3, correct3d_lon. auto_derive; [exact I|]. unfold Rdiv. ring.
Qed.

(** *** correct_pva(pva, 0) = pva  (attitude: for angles in the principal range) *)
Lemma corr3_at0 :
  A3 correct3d_lat 0 = lat /\ A3 correct3d_lon 0 = lon /\ A3 correct3d_alt 0 = alt /\
  A3 correct3d_VN 0 = VN /\ A3 correct3d_VE 0 = VE /\ A3 correct3d_VD 0 = VD /\
  A3 correct3d_roll 0 = roll /\ A3 correct3d_pitch 0 = pitch /\ A3 correct3d_heading 0 = heading.
Proof.
  unfold A3, along3.
  pose proof (cos_d2r_pos pitch Hpitch) as Hcp. pose proof PI_neq0 as Hpi.
  splits.
  - unfold correct3d_lat, Rdiv. ring.
  - unfold correct3d_lon, Rdiv. ring.
  - unfold correct3d_alt. ring.
  - unfold correct3d_VN. ray_facts x6 x7 x8. ray_vals. ring.
  - unfold correct3d_VE. ray_facts x6 x7 x8. ray_vals. ring.
  - unfold correct3d_VD. ray_facts x6 x7 x8. ray_vals. ring.
  - unfold correct3d_roll, euler_roll. ray_facts x6 x7 x8. ray_vals. autounfold with correct3d_db.
    match goal with |- atan2 ?a ?b * _ = _ =>
      replace a with (cos (pitch * (PI / 180)) * sin (roll * (PI / 180))) by ring;
      replace b with (cos (pitch * (PI / 180)) * cos (roll * (PI / 180))) by ring end.
    rewrite atan2_polar; [field; exact Hpi | exact Hcp | apply d2r_in_pi; exact Hroll].
  - unfold correct3d_pitch, euler_pitch. ray_facts x6 x7 x8. ray_vals. autounfold with correct3d_db.
    trig_abbrev roll pitch heading.
    match goal with |- context [sqrt ?E] =>
      replace (sqrt E) with cp by
        (symmetry; replace E with (cp * cp) by (ring [Hr]); apply sqrt_square; lra) end.
    match goal with |- atan2 ?a ?b * _ = _ =>
      replace a with (1 * sp) by ring; replace b with (1 * cp) by ring end.
    unfold sp, cp. rewrite atan2_polar; [field; exact Hpi | lra |].
    apply d2r_in_pi. lra.
  - unfold correct3d_heading, euler_heading. ray_facts x6 x7 x8. ray_vals. autounfold with correct3d_db.
    match goal with |- atan2 ?a ?b * _ = _ =>
      replace a with (cos (pitch * (PI / 180)) * sin (heading * (PI / 180))) by ring;
      replace b with (cos (pitch * (PI / 180)) * cos (heading * (PI / 180))) by ring end.
    rewrite atan2_polar; [field; exact Hpi | exact Hcp | apply d2r_in_pi; exact Hheading].
Qed.

(** *** compute_state_difference(pva, correct_pva(pva, e x)): derivative at 0 is T_out x *)

Lemma diff3_north : is_derive (D3 state_diff_north) 0 (mvec 9 T x 0).
Proof.
  assert (Halt' : -6000000 < alt) by lra.
  unfold D3, diff_after_correct3, along3.
  apply (is_derive_ext (fun e => e * (x0 * KN lat alt *
           QN (1 / 2 * (lat + (lat - e * x0 * KN lat alt))) (1 / 2 * (alt + (alt + e * x2)))))).
  { intro e. rewrite state_diff_north_eq, correct3d_lat_eq, correct3d_alt_eq by assumption. eqR. ring. }
  evar_last.
  - apply is_derive_north; try exact Halt'; affine_side.
  - unfold T, x. mat_entry. cbv [vec9]. ring.
Qed.

Lemma diff3_east : is_derive (D3 state_diff_east) 0 (mvec 9 T x 1).
Proof.
  assert (Halt' : -6000000 < alt) by lra.
  unfold D3, diff_after_correct3, along3.
  apply (is_derive_ext (fun e => e * (x1 * KE lat alt *
           QE (1 / 2 * (lat + (lat - e * x0 * KN lat alt))) (1 / 2 * (alt + (alt + e * x2)))))).
  { intro e. rewrite state_diff_east_eq, correct3d_lat_eq, correct3d_lon_eq, correct3d_alt_eq by assumption. eqR. ring. }
  evar_last.
  - apply is_derive_east; try exact Halt'; try exact Hlat; affine_side.
  - unfold T, x. mat_entry. cbv [vec9]. ring.
Qed.

Lemma diff3_down : is_derive (D3 state_diff_down) 0 (mvec 9 T x 2).
Proof.
  unfold D3, diff_after_correct3, state_diff_down.
  pose proof corr3_alt as H. unfold A3 in H.
  auto_derive; [eexists; exact H|]. derive_val H. ring.
Qed.

Lemma diff3_VN : is_derive (D3 state_diff_VN) 0 (mvec 9 T x 3).
Proof.
  unfold D3, diff_after_correct3, state_diff_VN.
  rewrite <- (Ropp_involutive (mvec 9 T x 3)). apply is_derive_const_minus. exact corr3_VN.
Qed.

Lemma diff3_VE : is_derive (D3 state_diff_VE) 0 (mvec 9 T x 4).
Proof.
  unfold D3, diff_after_correct3, state_diff_VE.
  rewrite <- (Ropp_involutive (mvec 9 T x 4)). apply is_derive_const_minus. exact corr3_VE.
Qed.

Lemma diff3_VD : is_derive (D3 state_diff_VD) 0 (mvec 9 T x 5).
Proof.
  unfold D3, diff_after_correct3, state_diff_VD.
  rewrite <- (Ropp_involutive (mvec 9 T x 5)). apply is_derive_const_minus. exact corr3_VD.
Qed.

Lemma diff3_roll : is_derive (D3 state_diff_roll) 0 (mvec 9 T x 6).
Proof.
  unfold D3, diff_after_correct3, state_diff_roll.
  destruct corr3_at0 as [_ [_ [_ [_ [_ [_ [Hr0 [Hp0 Hh0]]]]]]]]. unfold A3 in *.
  apply (is_derive_wrap180 (fun e => roll - _ e)).
  - rewrite <- (Ropp_involutive (mvec 9 T x 6)). apply is_derive_const_minus. exact corr3_roll.
  - rewrite Hr0. ring.
Qed.

Lemma diff3_pitch : is_derive (D3 state_diff_pitch) 0 (mvec 9 T x 7).
Proof.
  unfold D3, diff_after_correct3, state_diff_pitch.
  destruct corr3_at0 as [_ [_ [_ [_ [_ [_ [Hr0 [Hp0 Hh0]]]]]]]]. unfold A3 in *.
  apply (is_derive_wrap180 (fun e => pitch - _ e)).
  - rewrite <- (Ropp_involutive (mvec 9 T x 7)). apply is_derive_const_minus. exact corr3_pitch.
  - rewrite Hp0. ring.
Qed.

Lemma diff3_heading : is_derive (D3 state_diff_heading) 0 (mvec 9 T x 8).
Proof.
  unfold D3, diff_after_correct3, state_diff_heading.
  destruct corr3_at0 as [_ [_ [_ [_ [_ [_ [Hr0 [Hp0 Hh0]]]]]]]]. unfold A3 in *.
  apply (is_derive_wrap180 (fun e => heading - _ e)).
  - rewrite <- (Ropp_involutive (mvec 9 T x 8)). apply is_derive_const_minus. exact corr3_heading.
  - rewrite Hh0. ring.
Qed.
End Correct3D.

(** the same development for the no-altitude mode (7 states; PHI = x4 x5 x6) *)
Section Correct2D.
Variables lat lon alt VN VE VD roll pitch heading : R.
Variables x0 x1 x2 x3 x4 x5 x6 : R.
Hypothesis Hlat : -90 < lat < 90.
Hypothesis Halt : -1000000 <= alt.
Hypothesis Hroll : -180 < roll < 180.
Hypothesis Hpitch : -90 < pitch < 90.
Hypothesis Hheading : -180 < heading < 180.

Let T := Tout2 lat lon alt VN VE VD roll pitch heading.
Let x := vec7 x0 x1 x2 x3 x4 x5 x6.
Let A2 (f : R -> R -> R -> R -> R -> R -> R -> R -> R -> R -> R -> R -> R -> R -> R -> R -> R) :=
  along2 f lat lon alt VN VE VD roll pitch heading x0 x1 x2 x3 x4 x5 x6.
Let D2 (d : R -> R -> R -> R -> R -> R -> R -> R -> R -> R -> R -> R -> R -> R -> R -> R -> R -> R -> R) :=
  diff_after_correct2 d lat lon alt VN VE VD roll pitch heading x0 x1 x2 x3 x4 x5 x6.

(** *** the nine components of correct_pva along the ray: derivative at 0 *)

Lemma corr2_VN : is_derive (A2 correct2d_VN) 0 (- mvec 7 T x 3).
Proof.
  unfold A2, along2, correct2d_VN. ray_facts x4 x5 x6. to_ray x4 x5 x6.
  auto_derive; [ray_ex|]. ray_vals. unfold T, x. mat_entry. cbv [vec7]. ring.
Qed.

Lemma corr2_VE : is_derive (A2 correct2d_VE) 0 (- mvec 7 T x 4).
Proof.
  unfold A2, along2, correct2d_VE. ray_facts x4 x5 x6. to_ray x4 x5 x6.
  auto_derive; [ray_ex|]. ray_vals. unfold T, x. mat_entry. cbv [vec7]. ring.
Qed.

Lemma corr2_VD : is_derive (A2 correct2d_VD) 0 (- mvec 7 T x 5).
Proof.
  unfold A2, along2, correct2d_VD. ray_facts x4 x5 x6. to_ray x4 x5 x6.
  auto_derive; [ray_ex|]. ray_vals. unfold T, x. mat_entry. cbv [vec7]. ring.
Qed.

Lemma corr2_alt : is_derive (A2 correct2d_alt) 0 (mvec 7 T x 2).
Proof.
  unfold A2, along2, correct2d_alt. auto_derive; [exact I|]. unfold T, x. mat_entry. cbv [vec7]. ring.
Qed.

Lemma corr2_roll : is_derive (A2 correct2d_roll) 0 (- mvec 7 T x 6).
Proof.
  unfold A2, along2, correct2d_roll, euler_roll.
  ray_facts x4 x5 x6.
  pose proof (cos_d2r_pos pitch Hpitch) as Hcp.
  eapply is_derive_atan2_deg.
  - to_ray x4 x5 x6. auto_derive; [ray_ex|]. reflexivity.
  - to_ray x4 x5 x6. auto_derive; [ray_ex|]. reflexivity.
  - cbv beta. ray_vals. autounfold with correct2d_db.
    destruct (polar_offcut _ (d2r_in_pi roll Hroll)) as [Hc|Hs]; [left|right]; nra.
  - cbv beta. ray_vals. autounfold with correct2d_db. unfold T, x. mat_entry. cbv [vec7].
    trig_abbrev roll pitch heading. pose proof PI_neq0 as Hpi.
    match goal with |- _ = _ / ?D * _ => replace D with (cp * cp) by (ring [Hr]) end.
    field_simplify_eq; [ring [Hr Hp Hh] | split; [assumption | lra]].
Qed.

Lemma corr2_heading : is_derive (A2 correct2d_heading) 0 (- mvec 7 T x 8).
Proof.
  unfold A2, along2, correct2d_heading, euler_heading.
  ray_facts x4 x5 x6.
  pose proof (cos_d2r_pos pitch Hpitch) as Hcp.
  eapply is_derive_atan2_deg.
  - to_ray x4 x5 x6. auto_derive; [ray_ex|]. reflexivity.
  - to_ray x4 x5 x6. auto_derive; [ray_ex|]. reflexivity.
  - cbv beta. ray_vals. autounfold with correct2d_db.
    destruct (polar_offcut _ (d2r_in_pi heading Hheading)) as [Hc|Hs]; [left|right]; nra.
  - cbv beta. ray_vals. autounfold with correct2d_db. unfold T, x. mat_entry. cbv [vec7].
    trig_abbrev roll pitch heading. pose proof PI_neq0 as Hpi.
    match goal with |- _ = _ / ?D * _ => replace D with (cp * cp) by (ring [Hh]) end.
    field_simplify_eq; [ring [Hr Hp Hh] | split; [assumption | lra]].
Qed.

Lemma corr2_pitch : is_derive (A2 correct2d_pitch) 0 (- mvec 7 T x 7).
Proof.
  unfold A2, along2, correct2d_pitch, euler_pitch.
  ray_facts x4 x5 x6.
  pose proof (cos_d2r_pos pitch Hpitch) as Hcp.
  eapply is_derive_atan2_deg.
  - to_ray x4 x5 x6. auto_derive; [ray_ex|]. reflexivity.
  - to_ray x4 x5 x6.
    auto_derive; [ray_ex; ray_vals; autounfold with correct2d_db; trig_abbrev roll pitch heading;
                  match goal with |- 0 < ?E => replace E with (cp * cp) by (ring [Hr]) end; nra
                 | reflexivity].
  - cbv beta. ray_vals. autounfold with correct2d_db. left. apply sqrt_lt_R0.
    trig_abbrev roll pitch heading.
    match goal with |- 0 < ?E => replace E with (cp * cp) by (ring [Hr]) end; nra.
  - cbv beta. ray_vals. autounfold with correct2d_db. unfold T, x. mat_entry. cbv [vec7].
    trig_abbrev roll pitch heading. pose proof PI_neq0 as Hpi.
    repeat match goal with |- context [sqrt ?E] =>
      replace (sqrt E) with cp by
        (symmetry; replace E with (cp * cp) by (ring [Hr]); apply sqrt_square; lra) end.
    match goal with |- _ = _ / ?D * _ => replace D with 1 by (ring [Hp]) end.
    field_simplify_eq; [ring [Hr Hp Hh] | split; [assumption | lra]].
Qed.

(** latitude / longitude are affine in x0 / x1, so the derivative along the ray is the increment itself *)
Lemma corr2_lat : is_derive (A2 correct2d_lat) 0
  (correct2d_lat lat lon alt VN VE VD roll pitch heading x0 x1 x2 x3 x4 x5 x6 - lat).
Proof.
  unfold A2, along2, correct2d_lat. auto_derive; [exact I|]. unfold Rdiv. ring.
Qed.

Lemma corr2_lon : is_derive (A2 correct2d_lon) 0
  (correct2d_lon lat lon alt VN VE VD roll pitch heading x0 x1 x2 x3 x4 x5 x6 - lon).
Proof.
  unfold A2, along2, correct2d_lon. auto_derive; [exact I|]. unfold Rdiv. ring.
Qed.

(** *** correct_pva(pva, 0) = pva  (attitude: for angles in the principal range) *)
Lemma corr2_at0 :
  A2 correct2d_lat 0 = lat /\ A2 correct2d_lon 0 = lon /\ A2 correct2d_alt 0 = alt /\
  A2 correct2d_VN 0 = VN /\ A2 correct2d_VE 0 = VE /\ A2 correct2d_VD 0 = VD /\
  A2 correct2d_roll 0 = roll /\ A2 correct2d_pitch 0 = pitch /\ A2 correct2d_heading 0 = heading.
Proof.
  unfold A2, along2.
  pose proof (cos_d2r_pos pitch Hpitch) as Hcp. pose proof PI_neq0 as Hpi.
  splits.
  - unfold correct2d_lat, Rdiv. ring.
  - unfold correct2d_lon, Rdiv. ring.
  - unfold correct2d_alt. ring.
  - unfold correct2d_VN. ray_facts x4 x5 x6. ray_vals. ring.
  - unfold correct2d_VE. ray_facts x4 x5 x6. ray_vals. ring.
  - unfold correct2d_VD. ray_facts x4 x5 x6. ray_vals. ring.
  - unfold correct2d_roll, euler_roll. ray_facts x4 x5 x6. ray_vals. autounfold with correct2d_db.
    match goal with |- atan2 ?a ?b * _ = _ =>
      replace a with (cos (pitch * (PI / 180)) * sin (roll * (PI / 180))) by ring;
      replace b with (cos (pitch * (PI / 180)) * cos (roll * (PI / 180))) by ring end.
    rewrite atan2_polar; [field; exact Hpi | exact Hcp | apply d2r_in_pi; exact Hroll].
  - unfold correct2d_pitch, euler_pitch. ray_facts x4 x5 x6. ray_vals. autounfold with correct2d_db.
    trig_abbrev roll pitch heading.
    match goal with |- context [sqrt ?E] =>
      replace (sqrt E) with cp by
        (symmetry; replace E with (cp * cp) by (ring [Hr]); apply sqrt_square; lra) end.
    match goal with |- atan2 ?a ?b * _ = _ =>
      replace a with (1 * sp) by ring; replace b with (1 * cp) by ring end.
    unfold sp, cp. rewrite atan2_polar; [field; exact Hpi | lra |].
    apply d2r_in_pi. lra.
  - unfold correct2d_heading, euler_heading. ray_facts x4 x5 x6. ray_vals. autounfold with correct2d_db.
    match goal with |- atan2 ?a ?b * _ = _ =>
      replace a with (cos (pitch * (PI / 180)) * sin (heading * (PI / 180))) by ring;
      replace b with (cos (pitch * (PI / 180)) * cos (heading * (PI / 180))) by ring end.
    rewrite atan2_polar; [field; exact Hpi | exact Hcp | apply d2r_in_pi; exact Hheading].
Qed.

(** *** compute_state_difference(pva, correct_pva(pva, e x)): derivative at 0 is T_out x *)

Lemma diff2_north : is_derive (D2 state_diff_north) 0 (mvec 7 T x 0).
Proof.
  assert (Halt' : -6000000 < alt) by lra.
  unfold D2, diff_after_correct2, along2.
  apply (is_derive_ext (fun e => e * (x0 * KN lat alt *
           QN (1 / 2 * (lat + (lat - e * x0 * KN lat alt))) (1 / 2 * (alt + (alt)))))).
  { intro e. rewrite state_diff_north_eq, correct2d_lat_eq, correct2d_alt_eq by assumption. eqR. ring. }
  evar_last.
  - apply is_derive_north; try exact Halt'; affine_side.
  - unfold T, x. mat_entry. cbv [vec7]. ring.
Qed.

Lemma diff2_east : is_derive (D2 state_diff_east) 0 (mvec 7 T x 1).
Proof.
  assert (Halt' : -6000000 < alt) by lra.
  unfold D2, diff_after_correct2, along2.
  apply (is_derive_ext (fun e => e * (x1 * KE lat alt *
           QE (1 / 2 * (lat + (lat - e * x0 * KN lat alt))) (1 / 2 * (alt + (alt)))))).
  { intro e. rewrite state_diff_east_eq, correct2d_lat_eq, correct2d_lon_eq, correct2d_alt_eq by assumption. eqR. ring. }
  evar_last.
  - apply is_derive_east; try exact Halt'; try exact Hlat; affine_side.
  - unfold T, x. mat_entry. cbv [vec7]. ring.
Qed.

Lemma diff2_down : is_derive (D2 state_diff_down) 0 (mvec 7 T x 2).
Proof.
  unfold D2, diff_after_correct2, state_diff_down.
  pose proof corr2_alt as H. unfold A2 in H.
  auto_derive; [eexists; exact H|]. derive_val H. ring.
Qed.

Lemma diff2_VN : is_derive (D2 state_diff_VN) 0 (mvec 7 T x 3).
Proof.
  unfold D2, diff_after_correct2, state_diff_VN.
  rewrite <- (Ropp_involutive (mvec 7 T x 3)). apply is_derive_const_minus. exact corr2_VN.
Qed.

Lemma diff2_VE : is_derive (D2 state_diff_VE) 0 (mvec 7 T x 4).
Proof.
  unfold D2, diff_after_correct2, state_diff_VE.
  rewrite <- (Ropp_involutive (mvec 7 T x 4)). apply is_derive_const_minus. exact corr2_VE.
Qed.

Lemma diff2_VD : is_derive (D2 state_diff_VD) 0 (mvec 7 T x 5).
Proof.
  unfold D2, diff_after_correct2, state_diff_VD.
  rewrite <- (Ropp_involutive (mvec 7 T x 5)). apply is_derive_const_minus. exact corr2_VD.
Qed.

Lemma diff2_roll : is_derive (D2 state_diff_roll) 0 (mvec 7 T x 6).
Proof.
  unfold D2, diff_after_correct2, state_diff_roll.
  destruct corr2_at0 as [_ [_ [_ [_ [_ [_ [Hr0 [Hp0 Hh0]]]]]]]]. unfold A2 in *.
  apply (is_derive_wrap180 (fun e => roll - _ e)).
  - rewrite <- (Ropp_involutive (mvec 7 T x 6)). apply is_derive_const_minus. exact corr2_roll.
  - rewrite Hr0. ring.
Qed.

Lemma diff2_pitch : is_derive (D2 state_diff_pitch) 0 (mvec 7 T x 7).
Proof.
  unfold D2, diff_after_correct2, state_diff_pitch.
  destruct corr2_at0 as [_ [_ [_ [_ [_ [_ [Hr0 [Hp0 Hh0]]]]]]]]. unfold A2 in *.
  apply (is_derive_wrap180 (fun e => pitch - _ e)).
  - rewrite <- (Ropp_involutive (mvec 7 T x 7)). apply is_derive_const_minus. exact corr2_pitch.
  - rewrite Hp0. ring.
Qed.

Lemma diff2_heading : is_derive (D2 state_diff_heading) 0 (mvec 7 T x 8).
Proof.
  unfold D2, diff_after_correct2, state_diff_heading.
  destruct corr2_at0 as [_ [_ [_ [_ [_ [_ [Hr0 [Hp0 Hh0]]]]]]]]. unfold A2 in *.
  apply (is_derive_wrap180 (fun e => heading - _ e)).
  - rewrite <- (Ropp_involutive (mvec 7 T x 8)). apply is_derive_const_minus. exact corr2_heading.
  - rewrite Hh0. ring.
Qed.
End Correct2D.

(** ** C05 (b): the combined statements *)

Lemma correct_is_linearised_by_T_3d lat lon alt VN VE VD roll pitch heading x0 x1 x2 x3 x4 x5 x6 x7 x8 :
  -90 < lat < 90 -> -1000000 <= alt -> -180 < roll < 180 -> -90 < pitch < 90 -> -180 < heading < 180 ->
  let D := fun d => diff_after_correct3 d lat lon alt VN VE VD roll pitch heading x0 x1 x2 x3 x4 x5 x6 x7 x8 in
  let Tx := mvec 9 (Tout3 lat lon alt VN VE VD roll pitch heading) (vec9 x0 x1 x2 x3 x4 x5 x6 x7 x8) in
  is_derive (D state_diff_north) 0 (Tx 0%nat) /\ is_derive (D state_diff_east) 0 (Tx 1%nat) /\
  is_derive (D state_diff_down) 0 (Tx 2%nat) /\ is_derive (D state_diff_VN) 0 (Tx 3%nat) /\
  is_derive (D state_diff_VE) 0 (Tx 4%nat) /\ is_derive (D state_diff_VD) 0 (Tx 5%nat) /\
  is_derive (D state_diff_roll) 0 (Tx 6%nat) /\ is_derive (D state_diff_pitch) 0 (Tx 7%nat) /\
  is_derive (D state_diff_heading) 0 (Tx 8%nat).
Proof.
  intros Hlat Halt Hroll Hpitch Hheading. cbv zeta.
  splits; [apply diff3_north | apply diff3_east | apply diff3_down | apply diff3_VN | apply diff3_VE
          | apply diff3_VD | apply diff3_roll | apply diff3_pitch | apply diff3_heading]; assumption.
Qed.

Lemma correct_is_linearised_by_T_2d lat lon alt VN VE VD roll pitch heading x0 x1 x2 x3 x4 x5 x6 :
  -90 < lat < 90 -> -1000000 <= alt -> -180 < roll < 180 -> -90 < pitch < 90 -> -180 < heading < 180 ->
  let D := fun d => diff_after_correct2 d lat lon alt VN VE VD roll pitch heading x0 x1 x2 x3 x4 x5 x6 in
  let Tx := mvec 7 (Tout2 lat lon alt VN VE VD roll pitch heading) (vec7 x0 x1 x2 x3 x4 x5 x6) in
  is_derive (D state_diff_north) 0 (Tx 0%nat) /\ is_derive (D state_diff_east) 0 (Tx 1%nat) /\
  is_derive (D state_diff_down) 0 (Tx 2%nat) /\ is_derive (D state_diff_VN) 0 (Tx 3%nat) /\
  is_derive (D state_diff_VE) 0 (Tx 4%nat) /\ is_derive (D state_diff_VD) 0 (Tx 5%nat) /\
  is_derive (D state_diff_roll) 0 (Tx 6%nat) /\ is_derive (D state_diff_pitch) 0 (Tx 7%nat) /\
  is_derive (D state_diff_heading) 0 (Tx 8%nat).
Proof.
  intros Hlat Halt Hroll Hpitch Hheading. cbv zeta.
  splits; [apply diff2_north | apply diff2_east | apply diff2_down | apply diff2_VN | apply diff2_VE
          | apply diff2_VD | apply diff2_roll | apply diff2_pitch | apply diff2_heading]; assumption.
Qed.

(** correct_pva with a zero vector returns the state itself (principal-range attitude) *)
Lemma correct_zero_is_identity lat lon alt VN VE VD roll pitch heading :
  -180 < roll < 180 -> -90 < pitch < 90 -> -180 < heading < 180 ->
  (correct3d_lat lat lon alt VN VE VD roll pitch heading 0 0 0 0 0 0 0 0 0 = lat /\
   correct3d_lon lat lon alt VN VE VD roll pitch heading 0 0 0 0 0 0 0 0 0 = lon /\
   correct3d_alt lat lon alt VN VE VD roll pitch heading 0 0 0 0 0 0 0 0 0 = alt /\
   correct3d_VN lat lon alt VN VE VD roll pitch heading 0 0 0 0 0 0 0 0 0 = VN /\
   correct3d_VE lat lon alt VN VE VD roll pitch heading 0 0 0 0 0 0 0 0 0 = VE /\
   correct3d_VD lat lon alt VN VE VD roll pitch heading 0 0 0 0 0 0 0 0 0 = VD /\
   correct3d_roll lat lon alt VN VE VD roll pitch heading 0 0 0 0 0 0 0 0 0 = roll /\
   correct3d_pitch lat lon alt VN VE VD roll pitch heading 0 0 0 0 0 0 0 0 0 = pitch /\
   correct3d_heading lat lon alt VN VE VD roll pitch heading 0 0 0 0 0 0 0 0 0 = heading) /\
  (correct2d_lat lat lon alt VN VE VD roll pitch heading 0 0 0 0 0 0 0 = lat /\
   correct2d_lon lat lon alt VN VE VD roll pitch heading 0 0 0 0 0 0 0 = lon /\
   correct2d_alt lat lon alt VN VE VD roll pitch heading 0 0 0 0 0 0 0 = alt /\
   correct2d_VN lat lon alt VN VE VD roll pitch heading 0 0 0 0 0 0 0 = VN /\
   correct2d_VE lat lon alt VN VE VD roll pitch heading 0 0 0 0 0 0 0 = VE /\
   correct2d_VD lat lon alt VN VE VD roll pitch heading 0 0 0 0 0 0 0 = VD /\
   correct2d_roll lat lon alt VN VE VD roll pitch heading 0 0 0 0 0 0 0 = roll /\
   correct2d_pitch lat lon alt VN VE VD roll pitch heading 0 0 0 0 0 0 0 = pitch /\
   correct2d_heading lat lon alt VN VE VD roll pitch heading 0 0 0 0 0 0 0 = heading).
Proof.
  intros Hroll Hpitch Hheading.
  pose proof (corr3_at0 lat lon alt VN VE VD roll pitch heading 0 0 0 0 0 0 0 0 0 Hroll Hpitch Hheading) as H3.
  pose proof (corr2_at0 lat lon alt VN VE VD roll pitch heading 0 0 0 0 0 0 0 Hroll Hpitch Hheading) as H2.
  unfold along3 in H3. unfold along2 in H2. rewrite !Rmult_0_l in H3, H2. split; assumption.
Qed.

(** * Part D: measurement models (C06) *)

(** Assembly of the GENERATED z / H / R entries of the three Measurement classes (index bookkeeping only). *)
(** a function of a pva evaluated at correct_pva(pva, e * x) *)
Definition on_corrected3d (z : R -> R -> R -> R -> R -> R -> R -> R -> R -> R)
  (lat lon alt VN VE VD roll pitch heading x0 x1 x2 x3 x4 x5 x6 x7 x8 e : R) : R :=
  z (along3 correct3d_lat lat lon alt VN VE VD roll pitch heading x0 x1 x2 x3 x4 x5 x6 x7 x8 e)
    (along3 correct3d_lon lat lon alt VN VE VD roll pitch heading x0 x1 x2 x3 x4 x5 x6 x7 x8 e)
    (along3 correct3d_alt lat lon alt VN VE VD roll pitch heading x0 x1 x2 x3 x4 x5 x6 x7 x8 e)
    (along3 correct3d_VN lat lon alt VN VE VD roll pitch heading x0 x1 x2 x3 x4 x5 x6 x7 x8 e)
    (along3 correct3d_VE lat lon alt VN VE VD roll pitch heading x0 x1 x2 x3 x4 x5 x6 x7 x8 e)
    (along3 correct3d_VD lat lon alt VN VE VD roll pitch heading x0 x1 x2 x3 x4 x5 x6 x7 x8 e)
    (along3 correct3d_roll lat lon alt VN VE VD roll pitch heading x0 x1 x2 x3 x4 x5 x6 x7 x8 e)
    (along3 correct3d_pitch lat lon alt VN VE VD roll pitch heading x0 x1 x2 x3 x4 x5 x6 x7 x8 e)
    (along3 correct3d_heading lat lon alt VN VE VD roll pitch heading x0 x1 x2 x3 x4 x5 x6 x7 x8 e).
Definition on_corrected2d (z : R -> R -> R -> R -> R -> R -> R -> R -> R -> R)
  (lat lon alt VN VE VD roll pitch heading x0 x1 x2 x3 x4 x5 x6 e : R) : R :=
  z (along2 correct2d_lat lat lon alt VN VE VD roll pitch heading x0 x1 x2 x3 x4 x5 x6 e)
    (along2 correct2d_lon lat lon alt VN VE VD roll pitch heading x0 x1 x2 x3 x4 x5 x6 e)
    (along2 correct2d_alt lat lon alt VN VE VD roll pitch heading x0 x1 x2 x3 x4 x5 x6 e)
    (along2 correct2d_VN lat lon alt VN VE VD roll pitch heading x0 x1 x2 x3 x4 x5 x6 e)
    (along2 correct2d_VE lat lon alt VN VE VD roll pitch heading x0 x1 x2 x3 x4 x5 x6 e)
    (along2 correct2d_VD lat lon alt VN VE VD roll pitch heading x0 x1 x2 x3 x4 x5 x6 e)
    (along2 correct2d_roll lat lon alt VN VE VD roll pitch heading x0 x1 x2 x3 x4 x5 x6 e)
    (along2 correct2d_pitch lat lon alt VN VE VD roll pitch heading x0 x1 x2 x3 x4 x5 x6 e)
    (along2 correct2d_heading lat lon alt VN VE VD roll pitch heading x0 x1 x2 x3 x4 x5 x6 e).


Definition Hm_pos3d (lat lon alt VN VE VD roll pitch heading mlat mlon malt sd : R) (i j : nat) : R :=
  match i, j with
  | 0, 0 => pos3d_H00 lat lon alt VN VE VD roll pitch heading mlat mlon malt sd | 0, 1 => pos3d_H01 lat lon alt VN VE VD roll pitch heading mlat mlon malt sd | 0, 2 => pos3d_H02 lat lon alt VN VE VD roll pitch heading mlat mlon malt sd | 0, 3 => pos3d_H03 lat lon alt VN VE VD roll pitch heading mlat mlon malt sd | 0, 4 => pos3d_H04 lat lon alt VN VE VD roll pitch heading mlat mlon malt sd | 0, 5 => pos3d_H05 lat lon alt VN VE VD roll pitch heading mlat mlon malt sd | 0, 6 => pos3d_H06 lat lon alt VN VE VD roll pitch heading mlat mlon malt sd | 0, 7 => pos3d_H07 lat lon alt VN VE VD roll pitch heading mlat mlon malt sd | 0, 8 => pos3d_H08 lat lon alt VN VE VD roll pitch heading mlat mlon malt sd
  | 1, 0 => pos3d_H10 lat lon alt VN VE VD roll pitch heading mlat mlon malt sd | 1, 1 => pos3d_H11 lat lon alt VN VE VD roll pitch heading mlat mlon malt sd | 1, 2 => pos3d_H12 lat lon alt VN VE VD roll pitch heading mlat mlon malt sd | 1, 3 => pos3d_H13 lat lon alt VN VE VD roll pitch heading mlat mlon malt sd | 1, 4 => pos3d_H14 lat lon alt VN VE VD roll pitch heading mlat mlon malt sd | 1, 5 => pos3d_H15 lat lon alt VN VE VD roll pitch heading mlat mlon malt sd | 1, 6 => pos3d_H16 lat lon alt VN VE VD roll pitch heading mlat mlon malt sd | 1, 7 => pos3d_H17 lat lon alt VN VE VD roll pitch heading mlat mlon malt sd | 1, 8 => pos3d_H18 lat lon alt VN VE VD roll pitch heading mlat mlon malt sd
  | 2, 0 => pos3d_H20 lat lon alt VN VE VD roll pitch heading mlat mlon malt sd | 2, 1 => pos3d_H21 lat lon alt VN VE VD roll pitch heading mlat mlon malt sd | 2, 2 => pos3d_H22 lat lon alt VN VE VD roll pitch heading mlat mlon malt sd | 2, 3 => pos3d_H23 lat lon alt VN VE VD roll pitch heading mlat mlon malt sd | 2, 4 => pos3d_H24 lat lon alt VN VE VD roll pitch heading mlat mlon malt sd | 2, 5 => pos3d_H25 lat lon alt VN VE VD roll pitch heading mlat mlon malt sd | 2, 6 => pos3d_H26 lat lon alt VN VE VD roll pitch heading mlat mlon malt sd | 2, 7 => pos3d_H27 lat lon alt VN VE VD roll pitch heading mlat mlon malt sd | 2, 8 => pos3d_H28 lat lon alt VN VE VD roll pitch heading mlat mlon malt sd
  | _, _ => 0%R
  end%nat.

Definition Rm_pos3d (lat lon alt VN VE VD roll pitch heading mlat mlon malt sd : R) (i j : nat) : R :=
  match i, j with
  | 0, 0 => pos3d_R00 lat lon alt VN VE VD roll pitch heading mlat mlon malt sd | 0, 1 => pos3d_R01 lat lon alt VN VE VD roll pitch heading mlat mlon malt sd | 0, 2 => pos3d_R02 lat lon alt VN VE VD roll pitch heading mlat mlon malt sd
  | 1, 0 => pos3d_R10 lat lon alt VN VE VD roll pitch heading mlat mlon malt sd | 1, 1 => pos3d_R11 lat lon alt VN VE VD roll pitch heading mlat mlon malt sd | 1, 2 => pos3d_R12 lat lon alt VN VE VD roll pitch heading mlat mlon malt sd
  | 2, 0 => pos3d_R20 lat lon alt VN VE VD roll pitch heading mlat mlon malt sd | 2, 1 => pos3d_R21 lat lon alt VN VE VD roll pitch heading mlat mlon malt sd | 2, 2 => pos3d_R22 lat lon alt VN VE VD roll pitch heading mlat mlon malt sd
  | _, _ => 0%R
  end%nat.

Definition Zc_pos3d (lat lon alt VN VE VD roll pitch heading mlat mlon malt sd x0 x1 x2 x3 x4 x5 x6 x7 x8 : R) (k : nat) (e : R) : R :=
  match k with
  | 0 => on_corrected3d (fun a1 a2 a3 a4 a5 a6 a7 a8 a9 => pos3d_z0 a1 a2 a3 a4 a5 a6 a7 a8 a9 mlat mlon malt sd) lat lon alt VN VE VD roll pitch heading x0 x1 x2 x3 x4 x5 x6 x7 x8 e
  | 1 => on_corrected3d (fun a1 a2 a3 a4 a5 a6 a7 a8 a9 => pos3d_z1 a1 a2 a3 a4 a5 a6 a7 a8 a9 mlat mlon malt sd) lat lon alt VN VE VD roll pitch heading x0 x1 x2 x3 x4 x5 x6 x7 x8 e
  | 2 => on_corrected3d (fun a1 a2 a3 a4 a5 a6 a7 a8 a9 => pos3d_z2 a1 a2 a3 a4 a5 a6 a7 a8 a9 mlat mlon malt sd) lat lon alt VN VE VD roll pitch heading x0 x1 x2 x3 x4 x5 x6 x7 x8 e
  | _ => 0%R
  end%nat.

Definition Hm_pos3d_l (lat lon alt VN VE VD roll pitch heading mlat mlon malt l0 l1 l2 sd : R) (i j : nat) : R :=
  match i, j with
  | 0, 0 => pos3d_l_H00 lat lon alt VN VE VD roll pitch heading mlat mlon malt l0 l1 l2 sd | 0, 1 => pos3d_l_H01 lat lon alt VN VE VD roll pitch heading mlat mlon malt l0 l1 l2 sd | 0, 2 => pos3d_l_H02 lat lon alt VN VE VD roll pitch heading mlat mlon malt l0 l1 l2 sd | 0, 3 => pos3d_l_H03 lat lon alt VN VE VD roll pitch heading mlat mlon malt l0 l1 l2 sd | 0, 4 => pos3d_l_H04 lat lon alt VN VE VD roll pitch heading mlat mlon malt l0 l1 l2 sd | 0, 5 => pos3d_l_H05 lat lon alt VN VE VD roll pitch heading mlat mlon malt l0 l1 l2 sd | 0, 6 => pos3d_l_H06 lat lon alt VN VE VD roll pitch heading mlat mlon malt l0 l1 l2 sd | 0, 7 => pos3d_l_H07 lat lon alt VN VE VD roll pitch heading mlat mlon malt l0 l1 l2 sd | 0, 8 => pos3d_l_H08 lat lon alt VN VE VD roll pitch heading mlat mlon malt l0 l1 l2 sd
  | 1, 0 => pos3d_l_H10 lat lon alt VN VE VD roll pitch heading mlat mlon malt l0 l1 l2 sd | 1, 1 => pos3d_l_H11 lat lon alt VN VE VD roll pitch heading mlat mlon malt l0 l1 l2 sd | 1, 2 => pos3d_l_H12 lat lon alt VN VE VD roll pitch heading mlat mlon malt l0 l1 l2 sd | 1, 3 => pos3d_l_H13 lat lon alt VN VE VD roll pitch heading mlat mlon malt l0 l1 l2 sd | 1, 4 => pos3d_l_H14 lat lon alt VN VE VD roll pitch heading mlat mlon malt l0 l1 l2 sd | 1, 5 => pos3d_l_H15 lat lon alt VN VE VD roll pitch heading mlat mlon malt l0 l1 l2 sd | 1, 6 => pos3d_l_H16 lat lon alt VN VE VD roll pitch heading mlat mlon malt l0 l1 l2 sd | 1, 7 => pos3d_l_H17 lat lon alt VN VE VD roll pitch heading mlat mlon malt l0 l1 l2 sd | 1, 8 => pos3d_l_H18 lat lon alt VN VE VD roll pitch heading mlat mlon malt l0 l1 l2 sd
  | 2, 0 => pos3d_l_H20 lat lon alt VN VE VD roll pitch heading mlat mlon malt l0 l1 l2 sd | 2, 1 => pos3d_l_H21 lat lon alt VN VE VD roll pitch heading mlat mlon malt l0 l1 l2 sd | 2, 2 => pos3d_l_H22 lat lon alt VN VE VD roll pitch heading mlat mlon malt l0 l1 l2 sd | 2, 3 => pos3d_l_H23 lat lon alt VN VE VD roll pitch heading mlat mlon malt l0 l1 l2 sd | 2, 4 => pos3d_l_H24 lat lon alt VN VE VD roll pitch heading mlat mlon malt l0 l1 l2 sd | 2, 5 => pos3d_l_H25 lat lon alt VN VE VD roll pitch heading mlat mlon malt l0 l1 l2 sd | 2, 6 => pos3d_l_H26 lat lon alt VN VE VD roll pitch heading mlat mlon malt l0 l1 l2 sd | 2, 7 => pos3d_l_H27 lat lon alt VN VE VD roll pitch heading mlat mlon malt l0 l1 l2 sd | 2, 8 => pos3d_l_H28 lat lon alt VN VE VD roll pitch heading mlat mlon malt l0 l1 l2 sd
  | _, _ => 0%R
  end%nat.

Definition Rm_pos3d_l (lat lon alt VN VE VD roll pitch heading mlat mlon malt l0 l1 l2 sd : R) (i j : nat) : R :=
  match i, j with
  | 0, 0 => pos3d_l_R00 lat lon alt VN VE VD roll pitch heading mlat mlon malt l0 l1 l2 sd | 0, 1 => pos3d_l_R01 lat lon alt VN VE VD roll pitch heading mlat mlon malt l0 l1 l2 sd | 0, 2 => pos3d_l_R02 lat lon alt VN VE VD roll pitch heading mlat mlon malt l0 l1 l2 sd
  | 1, 0 => pos3d_l_R10 lat lon alt VN VE VD roll pitch heading mlat mlon malt l0 l1 l2 sd | 1, 1 => pos3d_l_R11 lat lon alt VN VE VD roll pitch heading mlat mlon malt l0 l1 l2 sd | 1, 2 => pos3d_l_R12 lat lon alt VN VE VD roll pitch heading mlat mlon malt l0 l1 l2 sd
  | 2, 0 => pos3d_l_R20 lat lon alt VN VE VD roll pitch heading mlat mlon malt l0 l1 l2 sd | 2, 1 => pos3d_l_R21 lat lon alt VN VE VD roll pitch heading mlat mlon malt l0 l1 l2 sd | 2, 2 => pos3d_l_R22 lat lon alt VN VE VD roll pitch heading mlat mlon malt l0 l1 l2 sd
  | _, _ => 0%R
  end%nat.

Definition Zc_pos3d_l (lat lon alt VN VE VD roll pitch heading mlat mlon malt l0 l1 l2 sd x0 x1 x2 x3 x4 x5 x6 x7 x8 : R) (k : nat) (e : R) : R :=
  match k with
  | 0 => on_corrected3d (fun a1 a2 a3 a4 a5 a6 a7 a8 a9 => pos3d_l_z0 a1 a2 a3 a4 a5 a6 a7 a8 a9 mlat mlon malt l0 l1 l2 sd) lat lon alt VN VE VD roll pitch heading x0 x1 x2 x3 x4 x5 x6 x7 x8 e
  | 1 => on_corrected3d (fun a1 a2 a3 a4 a5 a6 a7 a8 a9 => pos3d_l_z1 a1 a2 a3 a4 a5 a6 a7 a8 a9 mlat mlon malt l0 l1 l2 sd) lat lon alt VN VE VD roll pitch heading x0 x1 x2 x3 x4 x5 x6 x7 x8 e
  | 2 => on_corrected3d (fun a1 a2 a3 a4 a5 a6 a7 a8 a9 => pos3d_l_z2 a1 a2 a3 a4 a5 a6 a7 a8 a9 mlat mlon malt l0 l1 l2 sd) lat lon alt VN VE VD roll pitch heading x0 x1 x2 x3 x4 x5 x6 x7 x8 e
  | _ => 0%R
  end%nat.

Definition Hm_ned3d (lat lon alt VN VE VD roll pitch heading mVN mVE mVD sd : R) (i j : nat) : R :=
  match i, j with
  | 0, 0 => ned3d_H00 lat lon alt VN VE VD roll pitch heading mVN mVE mVD sd | 0, 1 => ned3d_H01 lat lon alt VN VE VD roll pitch heading mVN mVE mVD sd | 0, 2 => ned3d_H02 lat lon alt VN VE VD roll pitch heading mVN mVE mVD sd | 0, 3 => ned3d_H03 lat lon alt VN VE VD roll pitch heading mVN mVE mVD sd | 0, 4 => ned3d_H04 lat lon alt VN VE VD roll pitch heading mVN mVE mVD sd | 0, 5 => ned3d_H05 lat lon alt VN VE VD roll pitch heading mVN mVE mVD sd | 0, 6 => ned3d_H06 lat lon alt VN VE VD roll pitch heading mVN mVE mVD sd | 0, 7 => ned3d_H07 lat lon alt VN VE VD roll pitch heading mVN mVE mVD sd | 0, 8 => ned3d_H08 lat lon alt VN VE VD roll pitch heading mVN mVE mVD sd
  | 1, 0 => ned3d_H10 lat lon alt VN VE VD roll pitch heading mVN mVE mVD sd | 1, 1 => ned3d_H11 lat lon alt VN VE VD roll pitch heading mVN mVE mVD sd | 1, 2 => ned3d_H12 lat lon alt VN VE VD roll pitch heading mVN mVE mVD sd | 1, 3 => ned3d_H13 lat lon alt VN VE VD roll pitch heading mVN mVE mVD sd | 1, 4 => ned3d_H14 lat lon alt VN VE VD roll pitch heading mVN mVE mVD sd | 1, 5 => ned3d_H15 lat lon alt VN VE VD roll pitch heading mVN mVE mVD sd | 1, 6 => ned3d_H16 lat lon alt VN VE VD roll pitch heading mVN mVE mVD sd | 1, 7 => ned3d_H17 lat lon alt VN VE VD roll pitch heading mVN mVE mVD sd | 1, 8 => ned3d_H18 lat lon alt VN VE VD roll pitch heading mVN mVE mVD sd
  | 2, 0 => ned3d_H20 lat lon alt VN VE VD roll pitch heading mVN mVE mVD sd | 2, 1 => ned3d_H21 lat lon alt VN VE VD roll pitch heading mVN mVE mVD sd | 2, 2 => ned3d_H22 lat lon alt VN VE VD roll pitch heading mVN mVE mVD sd | 2, 3 => ned3d_H23 lat lon alt VN VE VD roll pitch heading mVN mVE mVD sd | 2, 4 => ned3d_H24 lat lon alt VN VE VD roll pitch heading mVN mVE mVD sd | 2, 5 => ned3d_H25 lat lon alt VN VE VD roll pitch heading mVN mVE mVD sd | 2, 6 => ned3d_H26 lat lon alt VN VE VD roll pitch heading mVN mVE mVD sd | 2, 7 => ned3d_H27 lat lon alt VN VE VD roll pitch heading mVN mVE mVD sd | 2, 8 => ned3d_H28 lat lon alt VN VE VD roll pitch heading mVN mVE mVD sd
  | _, _ => 0%R
  end%nat.

Definition Rm_ned3d (lat lon alt VN VE VD roll pitch heading mVN mVE mVD sd : R) (i j : nat) : R :=
  match i, j with
  | 0, 0 => ned3d_R00 lat lon alt VN VE VD roll pitch heading mVN mVE mVD sd | 0, 1 => ned3d_R01 lat lon alt VN VE VD roll pitch heading mVN mVE mVD sd | 0, 2 => ned3d_R02 lat lon alt VN VE VD roll pitch heading mVN mVE mVD sd
  | 1, 0 => ned3d_R10 lat lon alt VN VE VD roll pitch heading mVN mVE mVD sd | 1, 1 => ned3d_R11 lat lon alt VN VE VD roll pitch heading mVN mVE mVD sd | 1, 2 => ned3d_R12 lat lon alt VN VE VD roll pitch heading mVN mVE mVD sd
  | 2, 0 => ned3d_R20 lat lon alt VN VE VD roll pitch heading mVN mVE mVD sd | 2, 1 => ned3d_R21 lat lon alt VN VE VD roll pitch heading mVN mVE mVD sd | 2, 2 => ned3d_R22 lat lon alt VN VE VD roll pitch heading mVN mVE mVD sd
  | _, _ => 0%R
  end%nat.

Definition Zc_ned3d (lat lon alt VN VE VD roll pitch heading mVN mVE mVD sd x0 x1 x2 x3 x4 x5 x6 x7 x8 : R) (k : nat) (e : R) : R :=
  match k with
  | 0 => on_corrected3d (fun a1 a2 a3 a4 a5 a6 a7 a8 a9 => ned3d_z0 a1 a2 a3 a4 a5 a6 a7 a8 a9 mVN mVE mVD sd) lat lon alt VN VE VD roll pitch heading x0 x1 x2 x3 x4 x5 x6 x7 x8 e
  | 1 => on_corrected3d (fun a1 a2 a3 a4 a5 a6 a7 a8 a9 => ned3d_z1 a1 a2 a3 a4 a5 a6 a7 a8 a9 mVN mVE mVD sd) lat lon alt VN VE VD roll pitch heading x0 x1 x2 x3 x4 x5 x6 x7 x8 e
  | 2 => on_corrected3d (fun a1 a2 a3 a4 a5 a6 a7 a8 a9 => ned3d_z2 a1 a2 a3 a4 a5 a6 a7 a8 a9 mVN mVE mVD sd) lat lon alt VN VE VD roll pitch heading x0 x1 x2 x3 x4 x5 x6 x7 x8 e
  | _ => 0%R
  end%nat.

Definition Hm_ned3d_rate (lat lon alt VN VE VD roll pitch heading rate_x rate_y rate_z mVN mVE mVD sd : R) (i j : nat) : R :=
  match i, j with
  | 0, 0 => ned3d_rate_H00 lat lon alt VN VE VD roll pitch heading rate_x rate_y rate_z mVN mVE mVD sd | 0, 1 => ned3d_rate_H01 lat lon alt VN VE VD roll pitch heading rate_x rate_y rate_z mVN mVE mVD sd | 0, 2 => ned3d_rate_H02 lat lon alt VN VE VD roll pitch heading rate_x rate_y rate_z mVN mVE mVD sd | 0, 3 => ned3d_rate_H03 lat lon alt VN VE VD roll pitch heading rate_x rate_y rate_z mVN mVE mVD sd | 0, 4 => ned3d_rate_H04 lat lon alt VN VE VD roll pitch heading rate_x rate_y rate_z mVN mVE mVD sd | 0, 5 => ned3d_rate_H05 lat lon alt VN VE VD roll pitch heading rate_x rate_y rate_z mVN mVE mVD sd | 0, 6 => ned3d_rate_H06 lat lon alt VN VE VD roll pitch heading rate_x rate_y rate_z mVN mVE mVD sd | 0, 7 => ned3d_rate_H07 lat lon alt VN VE VD roll pitch heading rate_x rate_y rate_z mVN mVE mVD sd | 0, 8 => ned3d_rate_H08 lat lon alt VN VE VD roll pitch heading rate_x rate_y rate_z mVN mVE mVD sd
  | 1, 0 => ned3d_rate_H10 lat lon alt VN VE VD roll pitch heading rate_x rate_y rate_z mVN mVE mVD sd | 1, 1 => ned3d_rate_H11 lat lon alt VN VE VD roll pitch heading rate_x rate_y rate_z mVN mVE mVD sd | 1, 2 => ned3d_rate_H12 lat lon alt VN VE VD roll pitch heading rate_x rate_y rate_z mVN mVE mVD sd | 1, 3 => ned3d_rate_H13 lat lon alt VN VE VD roll pitch heading rate_x rate_y rate_z mVN mVE mVD sd | 1, 4 => ned3d_rate_H14 lat lon alt VN VE VD roll pitch heading rate_x rate_y rate_z mVN mVE mVD sd | 1, 5 => ned3d_rate_H15 lat lon alt VN VE VD roll pitch heading rate_x rate_y rate_z mVN mVE mVD sd | 1, 6 => ned3d_rate_H16 lat lon alt VN VE VD roll pitch heading rate_x rate_y rate_z mVN mVE mVD sd | 1, 7 => ned3d_rate_H17 lat lon alt VN VE VD roll pitch heading rate_x rate_y rate_z mVN mVE mVD sd | 1, 8 => ned3d_rate_H18 lat lon alt VN VE VD roll pitch heading rate_x rate_y rate_z mVN mVE mVD sd
  | 2, 0 => ned3d_rate_H20 lat lon alt VN VE VD roll pitch heading rate_x rate_y rate_z mVN mVE mVD sd | 2, 1 => ned3d_rate_H21 lat lon alt VN VE VD roll pitch heading rate_x rate_y rate_z mVN mVE mVD sd | 2, 2 => ned3d_rate_H22 lat lon alt VN VE VD roll pitch heading rate_x rate_y rate_z mVN mVE mVD sd | 2, 3 => ned3d_rate_H23 lat lon alt VN VE VD roll pitch heading rate_x rate_y rate_z mVN mVE mVD sd | 2, 4 => ned3d_rate_H24 lat lon alt VN VE VD roll pitch heading rate_x rate_y rate_z mVN mVE mVD sd | 2, 5 => ned3d_rate_H25 lat lon alt VN VE VD roll pitch heading rate_x rate_y rate_z mVN mVE mVD sd | 2, 6 => ned3d_rate_H26 lat lon alt VN VE VD roll pitch heading rate_x rate_y rate_z mVN mVE mVD sd | 2, 7 => ned3d_rate_H27 lat lon alt VN VE VD roll pitch heading rate_x rate_y rate_z mVN mVE mVD sd | 2, 8 => ned3d_rate_H28 lat lon alt VN VE VD roll pitch heading rate_x rate_y rate_z mVN mVE mVD sd
  | _, _ => 0%R
  end%nat.

Definition Rm_ned3d_rate (lat lon alt VN VE VD roll pitch heading rate_x rate_y rate_z mVN mVE mVD sd : R) (i j : nat) : R :=
  match i, j with
  | 0, 0 => ned3d_rate_R00 lat lon alt VN VE VD roll pitch heading rate_x rate_y rate_z mVN mVE mVD sd | 0, 1 => ned3d_rate_R01 lat lon alt VN VE VD roll pitch heading rate_x rate_y rate_z mVN mVE mVD sd | 0, 2 => ned3d_rate_R02 lat lon alt VN VE VD roll pitch heading rate_x rate_y rate_z mVN mVE mVD sd
  | 1, 0 => ned3d_rate_R10 lat lon alt VN VE VD roll pitch heading rate_x rate_y rate_z mVN mVE mVD sd | 1, 1 => ned3d_rate_R11 lat lon alt VN VE VD roll pitch heading rate_x rate_y rate_z mVN mVE mVD sd | 1, 2 => ned3d_rate_R12 lat lon alt VN VE VD roll pitch heading rate_x rate_y rate_z mVN mVE mVD sd
  | 2, 0 => ned3d_rate_R20 lat lon alt VN VE VD roll pitch heading rate_x rate_y rate_z mVN mVE mVD sd | 2, 1 => ned3d_rate_R21 lat lon alt VN VE VD roll pitch heading rate_x rate_y rate_z mVN mVE mVD sd | 2, 2 => ned3d_rate_R22 lat lon alt VN VE VD roll pitch heading rate_x rate_y rate_z mVN mVE mVD sd
  | _, _ => 0%R
  end%nat.

Definition Zc_ned3d_rate (lat lon alt VN VE VD roll pitch heading rate_x rate_y rate_z mVN mVE mVD sd x0 x1 x2 x3 x4 x5 x6 x7 x8 : R) (k : nat) (e : R) : R :=
  match k with
  | 0 => on_corrected3d (fun a1 a2 a3 a4 a5 a6 a7 a8 a9 => ned3d_rate_z0 a1 a2 a3 a4 a5 a6 a7 a8 a9 rate_x rate_y rate_z mVN mVE mVD sd) lat lon alt VN VE VD roll pitch heading x0 x1 x2 x3 x4 x5 x6 x7 x8 e
  | 1 => on_corrected3d (fun a1 a2 a3 a4 a5 a6 a7 a8 a9 => ned3d_rate_z1 a1 a2 a3 a4 a5 a6 a7 a8 a9 rate_x rate_y rate_z mVN mVE mVD sd) lat lon alt VN VE VD roll pitch heading x0 x1 x2 x3 x4 x5 x6 x7 x8 e
  | 2 => on_corrected3d (fun a1 a2 a3 a4 a5 a6 a7 a8 a9 => ned3d_rate_z2 a1 a2 a3 a4 a5 a6 a7 a8 a9 rate_x rate_y rate_z mVN mVE mVD sd) lat lon alt VN VE VD roll pitch heading x0 x1 x2 x3 x4 x5 x6 x7 x8 e
  | _ => 0%R
  end%nat.

Definition Hm_ned3d_l (lat lon alt VN VE VD roll pitch heading rate_x rate_y rate_z mVN mVE mVD l0 l1 l2 sd : R) (i j : nat) : R :=
  match i, j with
  | 0, 0 => ned3d_l_H00 lat lon alt VN VE VD roll pitch heading rate_x rate_y rate_z mVN mVE mVD l0 l1 l2 sd | 0, 1 => ned3d_l_H01 lat lon alt VN VE VD roll pitch heading rate_x rate_y rate_z mVN mVE mVD l0 l1 l2 sd | 0, 2 => ned3d_l_H02 lat lon alt VN VE VD roll pitch heading rate_x rate_y rate_z mVN mVE mVD l0 l1 l2 sd | 0, 3 => ned3d_l_H03 lat lon alt VN VE VD roll pitch heading rate_x rate_y rate_z mVN mVE mVD l0 l1 l2 sd | 0, 4 => ned3d_l_H04 lat lon alt VN VE VD roll pitch heading rate_x rate_y rate_z mVN mVE mVD l0 l1 l2 sd | 0, 5 => ned3d_l_H05 lat lon alt VN VE VD roll pitch heading rate_x rate_y rate_z mVN mVE mVD l0 l1 l2 sd | 0, 6 => ned3d_l_H06 lat lon alt VN VE VD roll pitch heading rate_x rate_y rate_z mVN mVE mVD l0 l1 l2 sd | 0, 7 => ned3d_l_H07 lat lon alt VN VE VD roll pitch heading rate_x rate_y rate_z mVN mVE mVD l0 l1 l2 sd | 0, 8 => ned3d_l_H08 lat lon alt VN VE VD roll pitch heading rate_x rate_y rate_z mVN mVE mVD l0 l1 l2 sd
  | 1, 0 => ned3d_l_H10 lat lon alt VN VE VD roll pitch heading rate_x rate_y rate_z mVN mVE mVD l0 l1 l2 sd | 1, 1 => ned3d_l_H11 lat lon alt VN VE VD roll pitch heading rate_x rate_y rate_z mVN mVE mVD l0 l1 l2 sd | 1, 2 => ned3d_l_H12 lat lon alt VN VE VD roll pitch heading rate_x rate_y rate_z mVN mVE mVD l0 l1 l2 sd | 1, 3 => ned3d_l_H13 lat lon alt VN VE VD roll pitch heading rate_x rate_y rate_z mVN mVE mVD l0 l1 l2 sd | 1, 4 => ned3d_l_H14 lat lon alt VN VE VD roll pitch heading rate_x rate_y rate_z mVN mVE mVD l0 l1 l2 sd | 1, 5 => ned3d_l_H15 lat lon alt VN VE VD roll pitch heading rate_x rate_y rate_z mVN mVE mVD l0 l1 l2 sd | 1, 6 => ned3d_l_H16 lat lon alt VN VE VD roll pitch heading rate_x rate_y rate_z mVN mVE mVD l0 l1 l2 sd | 1, 7 => ned3d_l_H17 lat lon alt VN VE VD roll pitch heading rate_x rate_y rate_z mVN mVE mVD l0 l1 l2 sd | 1, 8 => ned3d_l_H18 lat lon alt VN VE VD roll pitch heading rate_x rate_y rate_z mVN mVE mVD l0 l1 l2 sd
  | 2, 0 => ned3d_l_H20 lat lon alt VN VE VD roll pitch heading rate_x rate_y rate_z mVN mVE mVD l0 l1 l2 sd | 2, 1 => ned3d_l_H21 lat lon alt VN VE VD roll pitch heading rate_x rate_y rate_z mVN mVE mVD l0 l1 l2 sd | 2, 2 => ned3d_l_H22 lat lon alt VN VE VD roll pitch heading rate_x rate_y rate_z mVN mVE mVD l0 l1 l2 sd | 2, 3 => ned3d_l_H23 lat lon alt VN VE VD roll pitch heading rate_x rate_y rate_z mVN mVE mVD l0 l1 l2 sd | 2, 4 => ned3d_l_H24 lat lon alt VN VE VD roll pitch heading rate_x rate_y rate_z mVN mVE mVD l0 l1 l2 sd | 2, 5 => ned3d_l_H25 lat lon alt VN VE VD roll pitch heading rate_x rate_y rate_z mVN mVE mVD l0 l1 l2 sd | 2, 6 => ned3d_l_H26 lat lon alt VN VE VD roll pitch heading rate_x rate_y rate_z mVN mVE mVD l0 l1 l2 sd | 2, 7 => ned3d_l_H27 lat lon alt VN VE VD roll pitch heading rate_x rate_y rate_z mVN mVE mVD l0 l1 l2 sd | 2, 8 => ned3d_l_H28 lat lon alt VN VE VD roll pitch heading rate_x rate_y rate_z mVN mVE mVD l0 l1 l2 sd
  | _, _ => 0%R
  end%nat.

Definition Rm_ned3d_l (lat lon alt VN VE VD roll pitch heading rate_x rate_y rate_z mVN mVE mVD l0 l1 l2 sd : R) (i j : nat) : R :=
  match i, j with
  | 0, 0 => ned3d_l_R00 lat lon alt VN VE VD roll pitch heading rate_x rate_y rate_z mVN mVE mVD l0 l1 l2 sd | 0, 1 => ned3d_l_R01 lat lon alt VN VE VD roll pitch heading rate_x rate_y rate_z mVN mVE mVD l0 l1 l2 sd | 0, 2 => ned3d_l_R02 lat lon alt VN VE VD roll pitch heading rate_x rate_y rate_z mVN mVE mVD l0 l1 l2 sd
  | 1, 0 => ned3d_l_R10 lat lon alt VN VE VD roll pitch heading rate_x rate_y rate_z mVN mVE mVD l0 l1 l2 sd | 1, 1 => ned3d_l_R11 lat lon alt VN VE VD roll pitch heading rate_x rate_y rate_z mVN mVE mVD l0 l1 l2 sd | 1, 2 => ned3d_l_R12 lat lon alt VN VE VD roll pitch heading rate_x rate_y rate_z mVN mVE mVD l0 l1 l2 sd
  | 2, 0 => ned3d_l_R20 lat lon alt VN VE VD roll pitch heading rate_x rate_y rate_z mVN mVE mVD l0 l1 l2 sd | 2, 1 => ned3d_l_R21 lat lon alt VN VE VD roll pitch heading rate_x rate_y rate_z mVN mVE mVD l0 l1 l2 sd | 2, 2 => ned3d_l_R22 lat lon alt VN VE VD roll pitch heading rate_x rate_y rate_z mVN mVE mVD l0 l1 l2 sd
  | _, _ => 0%R
  end%nat.

Definition Zc_ned3d_l (lat lon alt VN VE VD roll pitch heading rate_x rate_y rate_z mVN mVE mVD l0 l1 l2 sd x0 x1 x2 x3 x4 x5 x6 x7 x8 : R) (k : nat) (e : R) : R :=
  match k with
  | 0 => on_corrected3d (fun a1 a2 a3 a4 a5 a6 a7 a8 a9 => ned3d_l_z0 a1 a2 a3 a4 a5 a6 a7 a8 a9 rate_x rate_y rate_z mVN mVE mVD l0 l1 l2 sd) lat lon alt VN VE VD roll pitch heading x0 x1 x2 x3 x4 x5 x6 x7 x8 e
  | 1 => on_corrected3d (fun a1 a2 a3 a4 a5 a6 a7 a8 a9 => ned3d_l_z1 a1 a2 a3 a4 a5 a6 a7 a8 a9 rate_x rate_y rate_z mVN mVE mVD l0 l1 l2 sd) lat lon alt VN VE VD roll pitch heading x0 x1 x2 x3 x4 x5 x6 x7 x8 e
  | 2 => on_corrected3d (fun a1 a2 a3 a4 a5 a6 a7 a8 a9 => ned3d_l_z2 a1 a2 a3 a4 a5 a6 a7 a8 a9 rate_x rate_y rate_z mVN mVE mVD l0 l1 l2 sd) lat lon alt VN VE VD roll pitch heading x0 x1 x2 x3 x4 x5 x6 x7 x8 e
  | _ => 0%R
  end%nat.

Definition Hm_ned3d_l_norate (lat lon alt VN VE VD roll pitch heading mVN mVE mVD l0 l1 l2 sd : R) (i j : nat) : R :=
  match i, j with
  | 0, 0 => ned3d_l_norate_H00 lat lon alt VN VE VD roll pitch heading mVN mVE mVD l0 l1 l2 sd | 0, 1 => ned3d_l_norate_H01 lat lon alt VN VE VD roll pitch heading mVN mVE mVD l0 l1 l2 sd | 0, 2 => ned3d_l_norate_H02 lat lon alt VN VE VD roll pitch heading mVN mVE mVD l0 l1 l2 sd | 0, 3 => ned3d_l_norate_H03 lat lon alt VN VE VD roll pitch heading mVN mVE mVD l0 l1 l2 sd | 0, 4 => ned3d_l_norate_H04 lat lon alt VN VE VD roll pitch heading mVN mVE mVD l0 l1 l2 sd | 0, 5 => ned3d_l_norate_H05 lat lon alt VN VE VD roll pitch heading mVN mVE mVD l0 l1 l2 sd | 0, 6 => ned3d_l_norate_H06 lat lon alt VN VE VD roll pitch heading mVN mVE mVD l0 l1 l2 sd | 0, 7 => ned3d_l_norate_H07 lat lon alt VN VE VD roll pitch heading mVN mVE mVD l0 l1 l2 sd | 0, 8 => ned3d_l_norate_H08 lat lon alt VN VE VD roll pitch heading mVN mVE mVD l0 l1 l2 sd
  | 1, 0 => ned3d_l_norate_H10 lat lon alt VN VE VD roll pitch heading mVN mVE mVD l0 l1 l2 sd | 1, 1 => ned3d_l_norate_H11 lat lon alt VN VE VD roll pitch heading mVN mVE mVD l0 l1 l2 sd | 1, 2 => ned3d_l_norate_H12 lat lon alt VN VE VD roll pitch heading mVN mVE mVD l0 l1 l2 sd | 1, 3 => ned3d_l_norate_H13 lat lon alt VN VE VD roll pitch heading mVN mVE mVD l0 l1 l2 sd | 1, 4 => ned3d_l_norate_H14 lat lon alt VN VE VD roll pitch heading mVN mVE mVD l0 l1 l2 sd | 1, 5 => ned3d_l_norate_H15 lat lon alt VN VE VD roll pitch heading mVN mVE mVD l0 l1 l2 sd | 1, 6 => ned3d_l_norate_H16 lat lon alt VN VE VD roll pitch heading mVN mVE mVD l0 l1 l2 sd | 1, 7 => ned3d_l_norate_H17 lat lon alt VN VE VD roll pitch heading mVN mVE mVD l0 l1 l2 sd | 1, 8 => ned3d_l_norate_H18 lat lon alt VN VE VD roll pitch heading mVN mVE mVD l0 l1 l2 sd
  | 2, 0 => ned3d_l_norate_H20 lat lon alt VN VE VD roll pitch heading mVN mVE mVD l0 l1 l2 sd | 2, 1 => ned3d_l_norate_H21 lat lon alt VN VE VD roll pitch heading mVN mVE mVD l0 l1 l2 sd | 2, 2 => ned3d_l_norate_H22 lat lon alt VN VE VD roll pitch heading mVN mVE mVD l0 l1 l2 sd | 2, 3 => ned3d_l_norate_H23 lat lon alt VN VE VD roll pitch heading mVN mVE mVD l0 l1 l2 sd | 2, 4 => ned3d_l_norate_H24 lat lon alt VN VE VD roll pitch heading mVN mVE mVD l0 l1 l2 sd | 2, 5 => ned3d_l_norate_H25 lat lon alt VN VE VD roll pitch heading mVN mVE mVD l0 l1 l2 sd | 2, 6 => ned3d_l_norate_H26 lat lon alt VN VE VD roll pitch heading mVN mVE mVD l0 l1 l2 sd | 2, 7 => ned3d_l_norate_H27 lat lon alt VN VE VD roll pitch heading mVN mVE mVD l0 l1 l2 sd | 2, 8 => ned3d_l_norate_H28 lat lon alt VN VE VD roll pitch heading mVN mVE mVD l0 l1 l2 sd
  | _, _ => 0%R
  end%nat.

Definition Rm_ned3d_l_norate (lat lon alt VN VE VD roll pitch heading mVN mVE mVD l0 l1 l2 sd : R) (i j : nat) : R :=
  match i, j with
  | 0, 0 => ned3d_l_norate_R00 lat lon alt VN VE VD roll pitch heading mVN mVE mVD l0 l1 l2 sd | 0, 1 => ned3d_l_norate_R01 lat lon alt VN VE VD roll pitch heading mVN mVE mVD l0 l1 l2 sd | 0, 2 => ned3d_l_norate_R02 lat lon alt VN VE VD roll pitch heading mVN mVE mVD l0 l1 l2 sd
  | 1, 0 => ned3d_l_norate_R10 lat lon alt VN VE VD roll pitch heading mVN mVE mVD l0 l1 l2 sd | 1, 1 => ned3d_l_norate_R11 lat lon alt VN VE VD roll pitch heading mVN mVE mVD l0 l1 l2 sd | 1, 2 => ned3d_l_norate_R12 lat lon alt VN VE VD roll pitch heading mVN mVE mVD l0 l1 l2 sd
  | 2, 0 => ned3d_l_norate_R20 lat lon alt VN VE VD roll pitch heading mVN mVE mVD l0 l1 l2 sd | 2, 1 => ned3d_l_norate_R21 lat lon alt VN VE VD roll pitch heading mVN mVE mVD l0 l1 l2 sd | 2, 2 => ned3d_l_norate_R22 lat lon alt VN VE VD roll pitch heading mVN mVE mVD l0 l1 l2 sd
  | _, _ => 0%R
  end%nat.

Definition Zc_ned3d_l_norate (lat lon alt VN VE VD roll pitch heading mVN mVE mVD l0 l1 l2 sd x0 x1 x2 x3 x4 x5 x6 x7 x8 : R) (k : nat) (e : R) : R :=
  match k with
  | 0 => on_corrected3d (fun a1 a2 a3 a4 a5 a6 a7 a8 a9 => ned3d_l_norate_z0 a1 a2 a3 a4 a5 a6 a7 a8 a9 mVN mVE mVD l0 l1 l2 sd) lat lon alt VN VE VD roll pitch heading x0 x1 x2 x3 x4 x5 x6 x7 x8 e
  | 1 => on_corrected3d (fun a1 a2 a3 a4 a5 a6 a7 a8 a9 => ned3d_l_norate_z1 a1 a2 a3 a4 a5 a6 a7 a8 a9 mVN mVE mVD l0 l1 l2 sd) lat lon alt VN VE VD roll pitch heading x0 x1 x2 x3 x4 x5 x6 x7 x8 e
  | 2 => on_corrected3d (fun a1 a2 a3 a4 a5 a6 a7 a8 a9 => ned3d_l_norate_z2 a1 a2 a3 a4 a5 a6 a7 a8 a9 mVN mVE mVD l0 l1 l2 sd) lat lon alt VN VE VD roll pitch heading x0 x1 x2 x3 x4 x5 x6 x7 x8 e
  | _ => 0%R
  end%nat.

Definition Hm_body3d (lat lon alt VN VE VD roll pitch heading mVX mVY mVZ sd : R) (i j : nat) : R :=
  match i, j with
  | 0, 0 => body3d_H00 lat lon alt VN VE VD roll pitch heading mVX mVY mVZ sd | 0, 1 => body3d_H01 lat lon alt VN VE VD roll pitch heading mVX mVY mVZ sd | 0, 2 => body3d_H02 lat lon alt VN VE VD roll pitch heading mVX mVY mVZ sd | 0, 3 => body3d_H03 lat lon alt VN VE VD roll pitch heading mVX mVY mVZ sd | 0, 4 => body3d_H04 lat lon alt VN VE VD roll pitch heading mVX mVY mVZ sd | 0, 5 => body3d_H05 lat lon alt VN VE VD roll pitch heading mVX mVY mVZ sd | 0, 6 => body3d_H06 lat lon alt VN VE VD roll pitch heading mVX mVY mVZ sd | 0, 7 => body3d_H07 lat lon alt VN VE VD roll pitch heading mVX mVY mVZ sd | 0, 8 => body3d_H08 lat lon alt VN VE VD roll pitch heading mVX mVY mVZ sd
  | 1, 0 => body3d_H10 lat lon alt VN VE VD roll pitch heading mVX mVY mVZ sd | 1, 1 => body3d_H11 lat lon alt VN VE VD roll pitch heading mVX mVY mVZ sd | 1, 2 => body3d_H12 lat lon alt VN VE VD roll pitch heading mVX mVY mVZ sd | 1, 3 => body3d_H13 lat lon alt VN VE VD roll pitch heading mVX mVY mVZ sd | 1, 4 => body3d_H14 lat lon alt VN VE VD roll pitch heading mVX mVY mVZ sd | 1, 5 => body3d_H15 lat lon alt VN VE VD roll pitch heading mVX mVY mVZ sd | 1, 6 => body3d_H16 lat lon alt VN VE VD roll pitch heading mVX mVY mVZ sd | 1, 7 => body3d_H17 lat lon alt VN VE VD roll pitch heading mVX mVY mVZ sd | 1, 8 => body3d_H18 lat lon alt VN VE VD roll pitch heading mVX mVY mVZ sd
  | 2, 0 => body3d_H20 lat lon alt VN VE VD roll pitch heading mVX mVY mVZ sd | 2, 1 => body3d_H21 lat lon alt VN VE VD roll pitch heading mVX mVY mVZ sd | 2, 2 => body3d_H22 lat lon alt VN VE VD roll pitch heading mVX mVY mVZ sd | 2, 3 => body3d_H23 lat lon alt VN VE VD roll pitch heading mVX mVY mVZ sd | 2, 4 => body3d_H24 lat lon alt VN VE VD roll pitch heading mVX mVY mVZ sd | 2, 5 => body3d_H25 lat lon alt VN VE VD roll pitch heading mVX mVY mVZ sd | 2, 6 => body3d_H26 lat lon alt VN VE VD roll pitch heading mVX mVY mVZ sd | 2, 7 => body3d_H27 lat lon alt VN VE VD roll pitch heading mVX mVY mVZ sd | 2, 8 => body3d_H28 lat lon alt VN VE VD roll pitch heading mVX mVY mVZ sd
  | _, _ => 0%R
  end%nat.

Definition Rm_body3d (lat lon alt VN VE VD roll pitch heading mVX mVY mVZ sd : R) (i j : nat) : R :=
  match i, j with
  | 0, 0 => body3d_R00 lat lon alt VN VE VD roll pitch heading mVX mVY mVZ sd | 0, 1 => body3d_R01 lat lon alt VN VE VD roll pitch heading mVX mVY mVZ sd | 0, 2 => body3d_R02 lat lon alt VN VE VD roll pitch heading mVX mVY mVZ sd
  | 1, 0 => body3d_R10 lat lon alt VN VE VD roll pitch heading mVX mVY mVZ sd | 1, 1 => body3d_R11 lat lon alt VN VE VD roll pitch heading mVX mVY mVZ sd | 1, 2 => body3d_R12 lat lon alt VN VE VD roll pitch heading mVX mVY mVZ sd
  | 2, 0 => body3d_R20 lat lon alt VN VE VD roll pitch heading mVX mVY mVZ sd | 2, 1 => body3d_R21 lat lon alt VN VE VD roll pitch heading mVX mVY mVZ sd | 2, 2 => body3d_R22 lat lon alt VN VE VD roll pitch heading mVX mVY mVZ sd
  | _, _ => 0%R
  end%nat.

Definition Zc_body3d (lat lon alt VN VE VD roll pitch heading mVX mVY mVZ sd x0 x1 x2 x3 x4 x5 x6 x7 x8 : R) (k : nat) (e : R) : R :=
  match k with
  | 0 => on_corrected3d (fun a1 a2 a3 a4 a5 a6 a7 a8 a9 => body3d_z0 a1 a2 a3 a4 a5 a6 a7 a8 a9 mVX mVY mVZ sd) lat lon alt VN VE VD roll pitch heading x0 x1 x2 x3 x4 x5 x6 x7 x8 e
  | 1 => on_corrected3d (fun a1 a2 a3 a4 a5 a6 a7 a8 a9 => body3d_z1 a1 a2 a3 a4 a5 a6 a7 a8 a9 mVX mVY mVZ sd) lat lon alt VN VE VD roll pitch heading x0 x1 x2 x3 x4 x5 x6 x7 x8 e
  | 2 => on_corrected3d (fun a1 a2 a3 a4 a5 a6 a7 a8 a9 => body3d_z2 a1 a2 a3 a4 a5 a6 a7 a8 a9 mVX mVY mVZ sd) lat lon alt VN VE VD roll pitch heading x0 x1 x2 x3 x4 x5 x6 x7 x8 e
  | _ => 0%R
  end%nat.

Definition Hm_body3d_rate (lat lon alt VN VE VD roll pitch heading rate_x rate_y rate_z mVX mVY mVZ sd : R) (i j : nat) : R :=
  match i, j with
  | 0, 0 => body3d_rate_H00 lat lon alt VN VE VD roll pitch heading rate_x rate_y rate_z mVX mVY mVZ sd | 0, 1 => body3d_rate_H01 lat lon alt VN VE VD roll pitch heading rate_x rate_y rate_z mVX mVY mVZ sd | 0, 2 => body3d_rate_H02 lat lon alt VN VE VD roll pitch heading rate_x rate_y rate_z mVX mVY mVZ sd | 0, 3 => body3d_rate_H03 lat lon alt VN VE VD roll pitch heading rate_x rate_y rate_z mVX mVY mVZ sd | 0, 4 => body3d_rate_H04 lat lon alt VN VE VD roll pitch heading rate_x rate_y rate_z mVX mVY mVZ sd | 0, 5 => body3d_rate_H05 lat lon alt VN VE VD roll pitch heading rate_x rate_y rate_z mVX mVY mVZ sd | 0, 6 => body3d_rate_H06 lat lon alt VN VE VD roll pitch heading rate_x rate_y rate_z mVX mVY mVZ sd | 0, 7 => body3d_rate_H07 lat lon alt VN VE VD roll pitch heading rate_x rate_y rate_z mVX mVY mVZ sd | 0, 8 => body3d_rate_H08 lat lon alt VN VE VD roll pitch heading rate_x rate_y rate_z mVX mVY mVZ sd
  | 1, 0 => body3d_rate_H10 lat lon alt VN VE VD roll pitch heading rate_x rate_y rate_z mVX mVY mVZ sd | 1, 1 => body3d_rate_H11 lat lon alt VN VE VD roll pitch heading rate_x rate_y rate_z mVX mVY mVZ sd | 1, 2 => body3d_rate_H12 lat lon alt VN VE VD roll pitch heading rate_x rate_y rate_z mVX mVY mVZ sd | 1, 3 => body3d_rate_H13 lat lon alt VN VE VD roll pitch heading rate_x rate_y rate_z mVX mVY mVZ sd | 1, 4 => body3d_rate_H14 lat lon alt VN VE VD roll pitch heading rate_x rate_y rate_z mVX mVY mVZ sd | 1, 5 => body3d_rate_H15 lat lon alt VN VE VD roll pitch heading rate_x rate_y rate_z mVX mVY mVZ sd | 1, 6 => body3d_rate_H16 lat lon alt VN VE VD roll pitch heading rate_x rate_y rate_z mVX mVY mVZ sd | 1, 7 => body3d_rate_H17 lat lon alt VN VE VD roll pitch heading rate_x rate_y rate_z mVX mVY mVZ sd | 1, 8 => body3d_rate_H18 lat lon alt VN VE VD roll pitch heading rate_x rate_y rate_z mVX mVY mVZ sd
  | 2, 0 => body3d_rate_H20 lat lon alt VN VE VD roll pitch heading rate_x rate_y rate_z mVX mVY mVZ sd | 2, 1 => body3d_rate_H21 lat lon alt VN VE VD roll pitch heading rate_x rate_y rate_z mVX mVY mVZ sd | 2, 2 => body3d_rate_H22 lat lon alt VN VE VD roll pitch heading rate_x rate_y rate_z mVX mVY mVZ sd | 2, 3 => body3d_rate_H23 lat lon alt VN VE VD roll pitch heading rate_x rate_y rate_z mVX mVY mVZ sd | 2, 4 => body3d_rate_H24 lat lon alt VN VE VD roll pitch heading rate_x rate_y rate_z mVX mVY mVZ sd | 2, 5 => body3d_rate_H25 lat lon alt VN VE VD roll pitch heading rate_x rate_y rate_z mVX mVY mVZ sd | 2, 6 => body3d_rate_H26 lat lon alt VN VE VD roll pitch heading rate_x rate_y rate_z mVX mVY mVZ sd | 2, 7 => body3d_rate_H27 lat lon alt VN VE VD roll pitch heading rate_x rate_y rate_z mVX mVY mVZ sd | 2, 8 => body3d_rate_H28 lat lon alt VN VE VD roll pitch heading rate_x rate_y rate_z mVX mVY mVZ sd
  | _, _ => 0%R
  end%nat.

Definition Rm_body3d_rate (lat lon alt VN VE VD roll pitch heading rate_x rate_y rate_z mVX mVY mVZ sd : R) (i j : nat) : R :=
  match i, j with
  | 0, 0 => body3d_rate_R00 lat lon alt VN VE VD roll pitch heading rate_x rate_y rate_z mVX mVY mVZ sd | 0, 1 => body3d_rate_R01 lat lon alt VN VE VD roll pitch heading rate_x rate_y rate_z mVX mVY mVZ sd | 0, 2 => body3d_rate_R02 lat lon alt VN VE VD roll pitch heading rate_x rate_y rate_z mVX mVY mVZ sd
  | 1, 0 => body3d_rate_R10 lat lon alt VN VE VD roll pitch heading rate_x rate_y rate_z mVX mVY mVZ sd | 1, 1 => body3d_rate_R11 lat lon alt VN VE VD roll pitch heading rate_x rate_y rate_z mVX mVY mVZ sd | 1, 2 => body3d_rate_R12 lat lon alt VN VE VD roll pitch heading rate_x rate_y rate_z mVX mVY mVZ sd
  | 2, 0 => body3d_rate_R20 lat lon alt VN VE VD roll pitch heading rate_x rate_y rate_z mVX mVY mVZ sd | 2, 1 => body3d_rate_R21 lat lon alt VN VE VD roll pitch heading rate_x rate_y rate_z mVX mVY mVZ sd | 2, 2 => body3d_rate_R22 lat lon alt VN VE VD roll pitch heading rate_x rate_y rate_z mVX mVY mVZ sd
  | _, _ => 0%R
  end%nat.

Definition Zc_body3d_rate (lat lon alt VN VE VD roll pitch heading rate_x rate_y rate_z mVX mVY mVZ sd x0 x1 x2 x3 x4 x5 x6 x7 x8 : R) (k : nat) (e : R) : R :=
  match k with
  | 0 => on_corrected3d (fun a1 a2 a3 a4 a5 a6 a7 a8 a9 => body3d_rate_z0 a1 a2 a3 a4 a5 a6 a7 a8 a9 rate_x rate_y rate_z mVX mVY mVZ sd) lat lon alt VN VE VD roll pitch heading x0 x1 x2 x3 x4 x5 x6 x7 x8 e
  | 1 => on_corrected3d (fun a1 a2 a3 a4 a5 a6 a7 a8 a9 => body3d_rate_z1 a1 a2 a3 a4 a5 a6 a7 a8 a9 rate_x rate_y rate_z mVX mVY mVZ sd) lat lon alt VN VE VD roll pitch heading x0 x1 x2 x3 x4 x5 x6 x7 x8 e
  | 2 => on_corrected3d (fun a1 a2 a3 a4 a5 a6 a7 a8 a9 => body3d_rate_z2 a1 a2 a3 a4 a5 a6 a7 a8 a9 rate_x rate_y rate_z mVX mVY mVZ sd) lat lon alt VN VE VD roll pitch heading x0 x1 x2 x3 x4 x5 x6 x7 x8 e
  | _ => 0%R
  end%nat.

Definition Hm_pos2d (lat lon alt VN VE VD roll pitch heading mlat mlon malt sd : R) (i j : nat) : R :=
  match i, j with
  | 0, 0 => pos2d_H00 lat lon alt VN VE VD roll pitch heading mlat mlon malt sd | 0, 1 => pos2d_H01 lat lon alt VN VE VD roll pitch heading mlat mlon malt sd | 0, 2 => pos2d_H02 lat lon alt VN VE VD roll pitch heading mlat mlon malt sd | 0, 3 => pos2d_H03 lat lon alt VN VE VD roll pitch heading mlat mlon malt sd | 0, 4 => pos2d_H04 lat lon alt VN VE VD roll pitch heading mlat mlon malt sd | 0, 5 => pos2d_H05 lat lon alt VN VE VD roll pitch heading mlat mlon malt sd | 0, 6 => pos2d_H06 lat lon alt VN VE VD roll pitch heading mlat mlon malt sd
  | 1, 0 => pos2d_H10 lat lon alt VN VE VD roll pitch heading mlat mlon malt sd | 1, 1 => pos2d_H11 lat lon alt VN VE VD roll pitch heading mlat mlon malt sd | 1, 2 => pos2d_H12 lat lon alt VN VE VD roll pitch heading mlat mlon malt sd | 1, 3 => pos2d_H13 lat lon alt VN VE VD roll pitch heading mlat mlon malt sd | 1, 4 => pos2d_H14 lat lon alt VN VE VD roll pitch heading mlat mlon malt sd | 1, 5 => pos2d_H15 lat lon alt VN VE VD roll pitch heading mlat mlon malt sd | 1, 6 => pos2d_H16 lat lon alt VN VE VD roll pitch heading mlat mlon malt sd
  | _, _ => 0%R
  end%nat.

Definition Rm_pos2d (lat lon alt VN VE VD roll pitch heading mlat mlon malt sd : R) (i j : nat) : R :=
  match i, j with
  | 0, 0 => pos2d_R00 lat lon alt VN VE VD roll pitch heading mlat mlon malt sd | 0, 1 => pos2d_R01 lat lon alt VN VE VD roll pitch heading mlat mlon malt sd
  | 1, 0 => pos2d_R10 lat lon alt VN VE VD roll pitch heading mlat mlon malt sd | 1, 1 => pos2d_R11 lat lon alt VN VE VD roll pitch heading mlat mlon malt sd
  | _, _ => 0%R
  end%nat.

Definition Zc_pos2d (lat lon alt VN VE VD roll pitch heading mlat mlon malt sd x0 x1 x2 x3 x4 x5 x6 : R) (k : nat) (e : R) : R :=
  match k with
  | 0 => on_corrected2d (fun a1 a2 a3 a4 a5 a6 a7 a8 a9 => pos2d_z0 a1 a2 a3 a4 a5 a6 a7 a8 a9 mlat mlon malt sd) lat lon alt VN VE VD roll pitch heading x0 x1 x2 x3 x4 x5 x6 e
  | 1 => on_corrected2d (fun a1 a2 a3 a4 a5 a6 a7 a8 a9 => pos2d_z1 a1 a2 a3 a4 a5 a6 a7 a8 a9 mlat mlon malt sd) lat lon alt VN VE VD roll pitch heading x0 x1 x2 x3 x4 x5 x6 e
  | _ => 0%R
  end%nat.

Definition Hm_pos2d_l (lat lon alt VN VE VD roll pitch heading mlat mlon malt l0 l1 l2 sd : R) (i j : nat) : R :=
  match i, j with
  | 0, 0 => pos2d_l_H00 lat lon alt VN VE VD roll pitch heading mlat mlon malt l0 l1 l2 sd | 0, 1 => pos2d_l_H01 lat lon alt VN VE VD roll pitch heading mlat mlon malt l0 l1 l2 sd | 0, 2 => pos2d_l_H02 lat lon alt VN VE VD roll pitch heading mlat mlon malt l0 l1 l2 sd | 0, 3 => pos2d_l_H03 lat lon alt VN VE VD roll pitch heading mlat mlon malt l0 l1 l2 sd | 0, 4 => pos2d_l_H04 lat lon alt VN VE VD roll pitch heading mlat mlon malt l0 l1 l2 sd | 0, 5 => pos2d_l_H05 lat lon alt VN VE VD roll pitch heading mlat mlon malt l0 l1 l2 sd | 0, 6 => pos2d_l_H06 lat lon alt VN VE VD roll pitch heading mlat mlon malt l0 l1 l2 sd
  | 1, 0 => pos2d_l_H10 lat lon alt VN VE VD roll pitch heading mlat mlon malt l0 l1 l2 sd | 1, 1 => pos2d_l_H11 lat lon alt VN VE VD roll pitch heading mlat mlon malt l0 l1 l2 sd | 1, 2 => pos2d_l_H12 lat lon alt VN VE VD roll pitch heading mlat mlon malt l0 l1 l2 sd | 1, 3 => pos2d_l_H13 lat lon alt VN VE VD roll pitch heading mlat mlon malt l0 l1 l2 sd | 1, 4 => pos2d_l_H14 lat lon alt VN VE VD roll pitch heading mlat mlon malt l0 l1 l2 sd | 1, 5 => pos2d_l_H15 lat lon alt VN VE VD roll pitch heading mlat mlon malt l0 l1 l2 sd | 1, 6 => pos2d_l_H16 lat lon alt VN VE VD roll pitch heading mlat mlon malt l0 l1 l2 sd
  | _, _ => 0%R
  end%nat.

Definition Rm_pos2d_l (lat lon alt VN VE VD roll pitch heading mlat mlon malt l0 l1 l2 sd : R) (i j : nat) : R :=
  match i, j with
  | 0, 0 => pos2d_l_R00 lat lon alt VN VE VD roll pitch heading mlat mlon malt l0 l1 l2 sd | 0, 1 => pos2d_l_R01 lat lon alt VN VE VD roll pitch heading mlat mlon malt l0 l1 l2 sd
  | 1, 0 => pos2d_l_R10 lat lon alt VN VE VD roll pitch heading mlat mlon malt l0 l1 l2 sd | 1, 1 => pos2d_l_R11 lat lon alt VN VE VD roll pitch heading mlat mlon malt l0 l1 l2 sd
  | _, _ => 0%R
  end%nat.

Definition Zc_pos2d_l (lat lon alt VN VE VD roll pitch heading mlat mlon malt l0 l1 l2 sd x0 x1 x2 x3 x4 x5 x6 : R) (k : nat) (e : R) : R :=
  match k with
  | 0 => on_corrected2d (fun a1 a2 a3 a4 a5 a6 a7 a8 a9 => pos2d_l_z0 a1 a2 a3 a4 a5 a6 a7 a8 a9 mlat mlon malt l0 l1 l2 sd) lat lon alt VN VE VD roll pitch heading x0 x1 x2 x3 x4 x5 x6 e
  | 1 => on_corrected2d (fun a1 a2 a3 a4 a5 a6 a7 a8 a9 => pos2d_l_z1 a1 a2 a3 a4 a5 a6 a7 a8 a9 mlat mlon malt l0 l1 l2 sd) lat lon alt VN VE VD roll pitch heading x0 x1 x2 x3 x4 x5 x6 e
  | _ => 0%R
  end%nat.

Definition Hm_ned2d (lat lon alt VN VE VD roll pitch heading mVN mVE mVD sd : R) (i j : nat) : R :=
  match i, j with
  | 0, 0 => ned2d_H00 lat lon alt VN VE VD roll pitch heading mVN mVE mVD sd | 0, 1 => ned2d_H01 lat lon alt VN VE VD roll pitch heading mVN mVE mVD sd | 0, 2 => ned2d_H02 lat lon alt VN VE VD roll pitch heading mVN mVE mVD sd | 0, 3 => ned2d_H03 lat lon alt VN VE VD roll pitch heading mVN mVE mVD sd | 0, 4 => ned2d_H04 lat lon alt VN VE VD roll pitch heading mVN mVE mVD sd | 0, 5 => ned2d_H05 lat lon alt VN VE VD roll pitch heading mVN mVE mVD sd | 0, 6 => ned2d_H06 lat lon alt VN VE VD roll pitch heading mVN mVE mVD sd
  | 1, 0 => ned2d_H10 lat lon alt VN VE VD roll pitch heading mVN mVE mVD sd | 1, 1 => ned2d_H11 lat lon alt VN VE VD roll pitch heading mVN mVE mVD sd | 1, 2 => ned2d_H12 lat lon alt VN VE VD roll pitch heading mVN mVE mVD sd | 1, 3 => ned2d_H13 lat lon alt VN VE VD roll pitch heading mVN mVE mVD sd | 1, 4 => ned2d_H14 lat lon alt VN VE VD roll pitch heading mVN mVE mVD sd | 1, 5 => ned2d_H15 lat lon alt VN VE VD roll pitch heading mVN mVE mVD sd | 1, 6 => ned2d_H16 lat lon alt VN VE VD roll pitch heading mVN mVE mVD sd
  | _, _ => 0%R
  end%nat.

Definition Rm_ned2d (lat lon alt VN VE VD roll pitch heading mVN mVE mVD sd : R) (i j : nat) : R :=
  match i, j with
  | 0, 0 => ned2d_R00 lat lon alt VN VE VD roll pitch heading mVN mVE mVD sd | 0, 1 => ned2d_R01 lat lon alt VN VE VD roll pitch heading mVN mVE mVD sd
  | 1, 0 => ned2d_R10 lat lon alt VN VE VD roll pitch heading mVN mVE mVD sd | 1, 1 => ned2d_R11 lat lon alt VN VE VD roll pitch heading mVN mVE mVD sd
  | _, _ => 0%R
  end%nat.

Definition Zc_ned2d (lat lon alt VN VE VD roll pitch heading mVN mVE mVD sd x0 x1 x2 x3 x4 x5 x6 : R) (k : nat) (e : R) : R :=
  match k with
  | 0 => on_corrected2d (fun a1 a2 a3 a4 a5 a6 a7 a8 a9 => ned2d_z0 a1 a2 a3 a4 a5 a6 a7 a8 a9 mVN mVE mVD sd) lat lon alt VN VE VD roll pitch heading x0 x1 x2 x3 x4 x5 x6 e
  | 1 => on_corrected2d (fun a1 a2 a3 a4 a5 a6 a7 a8 a9 => ned2d_z1 a1 a2 a3 a4 a5 a6 a7 a8 a9 mVN mVE mVD sd) lat lon alt VN VE VD roll pitch heading x0 x1 x2 x3 x4 x5 x6 e
  | _ => 0%R
  end%nat.

Definition Hm_ned2d_rate (lat lon alt VN VE VD roll pitch heading rate_x rate_y rate_z mVN mVE mVD sd : R) (i j : nat) : R :=
  match i, j with
  | 0, 0 => ned2d_rate_H00 lat lon alt VN VE VD roll pitch heading rate_x rate_y rate_z mVN mVE mVD sd | 0, 1 => ned2d_rate_H01 lat lon alt VN VE VD roll pitch heading rate_x rate_y rate_z mVN mVE mVD sd | 0, 2 => ned2d_rate_H02 lat lon alt VN VE VD roll pitch heading rate_x rate_y rate_z mVN mVE mVD sd | 0, 3 => ned2d_rate_H03 lat lon alt VN VE VD roll pitch heading rate_x rate_y rate_z mVN mVE mVD sd | 0, 4 => ned2d_rate_H04 lat lon alt VN VE VD roll pitch heading rate_x rate_y rate_z mVN mVE mVD sd | 0, 5 => ned2d_rate_H05 lat lon alt VN VE VD roll pitch heading rate_x rate_y rate_z mVN mVE mVD sd | 0, 6 => ned2d_rate_H06 lat lon alt VN VE VD roll pitch heading rate_x rate_y rate_z mVN mVE mVD sd
  | 1, 0 => ned2d_rate_H10 lat lon alt VN VE VD roll pitch heading rate_x rate_y rate_z mVN mVE mVD sd | 1, 1 => ned2d_rate_H11 lat lon alt VN VE VD roll pitch heading rate_x rate_y rate_z mVN mVE mVD sd | 1, 2 => ned2d_rate_H12 lat lon alt VN VE VD roll pitch heading rate_x rate_y rate_z mVN mVE mVD sd | 1, 3 => ned2d_rate_H13 lat lon alt VN VE VD roll pitch heading rate_x rate_y rate_z mVN mVE mVD sd | 1, 4 => ned2d_rate_H14 lat lon alt VN VE VD roll pitch heading rate_x rate_y rate_z mVN mVE mVD sd | 1, 5 => ned2d_rate_H15 lat lon alt VN VE VD roll pitch heading rate_x rate_y rate_z mVN mVE mVD sd | 1, 6 => ned2d_rate_H16 lat lon alt VN VE VD roll pitch heading rate_x rate_y rate_z mVN mVE mVD sd
  | _, _ => 0%R
  end%nat.

Definition Rm_ned2d_rate (lat lon alt VN VE VD roll pitch heading rate_x rate_y rate_z mVN mVE mVD sd : R) (i j : nat) : R :=
  match i, j with
  | 0, 0 => ned2d_rate_R00 lat lon alt VN VE VD roll pitch heading rate_x rate_y rate_z mVN mVE mVD sd | 0, 1 => ned2d_rate_R01 lat lon alt VN VE VD roll pitch heading rate_x rate_y rate_z mVN mVE mVD sd
  | 1, 0 => ned2d_rate_R10 lat lon alt VN VE VD roll pitch heading rate_x rate_y rate_z mVN mVE mVD sd | 1, 1 => ned2d_rate_R11 lat lon alt VN VE VD roll pitch heading rate_x rate_y rate_z mVN mVE mVD sd
  | _, _ => 0%R
  end%nat.

Definition Zc_ned2d_rate (lat lon alt VN VE VD roll pitch heading rate_x rate_y rate_z mVN mVE mVD sd x0 x1 x2 x3 x4 x5 x6 : R) (k : nat) (e : R) : R :=
  match k with
  | 0 => on_corrected2d (fun a1 a2 a3 a4 a5 a6 a7 a8 a9 => ned2d_rate_z0 a1 a2 a3 a4 a5 a6 a7 a8 a9 rate_x rate_y rate_z mVN mVE mVD sd) lat lon alt VN VE VD roll pitch heading x0 x1 x2 x3 x4 x5 x6 e
  | 1 => on_corrected2d (fun a1 a2 a3 a4 a5 a6 a7 a8 a9 => ned2d_rate_z1 a1 a2 a3 a4 a5 a6 a7 a8 a9 rate_x rate_y rate_z mVN mVE mVD sd) lat lon alt VN VE VD roll pitch heading x0 x1 x2 x3 x4 x5 x6 e
  | _ => 0%R
  end%nat.

Definition Hm_ned2d_l (lat lon alt VN VE VD roll pitch heading rate_x rate_y rate_z mVN mVE mVD l0 l1 l2 sd : R) (i j : nat) : R :=
  match i, j with
  | 0, 0 => ned2d_l_H00 lat lon alt VN VE VD roll pitch heading rate_x rate_y rate_z mVN mVE mVD l0 l1 l2 sd | 0, 1 => ned2d_l_H01 lat lon alt VN VE VD roll pitch heading rate_x rate_y rate_z mVN mVE mVD l0 l1 l2 sd | 0, 2 => ned2d_l_H02 lat lon alt VN VE VD roll pitch heading rate_x rate_y rate_z mVN mVE mVD l0 l1 l2 sd | 0, 3 => ned2d_l_H03 lat lon alt VN VE VD roll pitch heading rate_x rate_y rate_z mVN mVE mVD l0 l1 l2 sd | 0, 4 => ned2d_l_H04 lat lon alt VN VE VD roll pitch heading rate_x rate_y rate_z mVN mVE mVD l0 l1 l2 sd | 0, 5 => ned2d_l_H05 lat lon alt VN VE VD roll pitch heading rate_x rate_y rate_z mVN mVE mVD l0 l1 l2 sd | 0, 6 => ned2d_l_H06 lat lon alt VN VE VD roll pitch heading rate_x rate_y rate_z mVN mVE mVD l0 l1 l2 sd
  | 1, 0 => ned2d_l_H10 lat lon alt VN VE VD roll pitch heading rate_x rate_y rate_z mVN mVE mVD l0 l1 l2 sd | 1, 1 => ned2d_l_H11 lat lon alt VN VE VD roll pitch heading rate_x rate_y rate_z mVN mVE mVD l0 l1 l2 sd | 1, 2 => ned2d_l_H12 lat lon alt VN VE VD roll pitch heading rate_x rate_y rate_z mVN mVE mVD l0 l1 l2 sd | 1, 3 => ned2d_l_H13 lat lon alt VN VE VD roll pitch heading rate_x rate_y rate_z mVN mVE mVD l0 l1 l2 sd | 1, 4 => ned2d_l_H14 lat lon alt VN VE VD roll pitch heading rate_x rate_y rate_z mVN mVE mVD l0 l1 l2 sd | 1, 5 => ned2d_l_H15 lat lon alt VN VE VD roll pitch heading rate_x rate_y rate_z mVN mVE mVD l0 l1 l2 sd | 1, 6 => ned2d_l_H16 lat lon alt VN VE VD roll pitch heading rate_x rate_y rate_z mVN mVE mVD l0 l1 l2 sd
  | _, _ => 0%R
  end%nat.

Definition Rm_ned2d_l (lat lon alt VN VE VD roll pitch heading rate_x rate_y rate_z mVN mVE mVD l0 l1 l2 sd : R) (i j : nat) : R :=
  match i, j with
  | 0, 0 => ned2d_l_R00 lat lon alt VN VE VD roll pitch heading rate_x rate_y rate_z mVN mVE mVD l0 l1 l2 sd | 0, 1 => ned2d_l_R01 lat lon alt VN VE VD roll pitch heading rate_x rate_y rate_z mVN mVE mVD l0 l1 l2 sd
  | 1, 0 => ned2d_l_R10 lat lon alt VN VE VD roll pitch heading rate_x rate_y rate_z mVN mVE mVD l0 l1 l2 sd | 1, 1 => ned2d_l_R11 lat lon alt VN VE VD roll pitch heading rate_x rate_y rate_z mVN mVE mVD l0 l1 l2 sd
  | _, _ => 0%R
  end%nat.

Definition Zc_ned2d_l (lat lon alt VN VE VD roll pitch heading rate_x rate_y rate_z mVN mVE mVD l0 l1 l2 sd x0 x1 x2 x3 x4 x5 x6 : R) (k : nat) (e : R) : R :=
  match k with
  | 0 => on_corrected2d (fun a1 a2 a3 a4 a5 a6 a7 a8 a9 => ned2d_l_z0 a1 a2 a3 a4 a5 a6 a7 a8 a9 rate_x rate_y rate_z mVN mVE mVD l0 l1 l2 sd) lat lon alt VN VE VD roll pitch heading x0 x1 x2 x3 x4 x5 x6 e
  | 1 => on_corrected2d (fun a1 a2 a3 a4 a5 a6 a7 a8 a9 => ned2d_l_z1 a1 a2 a3 a4 a5 a6 a7 a8 a9 rate_x rate_y rate_z mVN mVE mVD l0 l1 l2 sd) lat lon alt VN VE VD roll pitch heading x0 x1 x2 x3 x4 x5 x6 e
  | _ => 0%R
  end%nat.

Definition Hm_ned2d_l_norate (lat lon alt VN VE VD roll pitch heading mVN mVE mVD l0 l1 l2 sd : R) (i j : nat) : R :=
  match i, j with
  | 0, 0 => ned2d_l_norate_H00 lat lon alt VN VE VD roll pitch heading mVN mVE mVD l0 l1 l2 sd | 0, 1 => ned2d_l_norate_H01 lat lon alt VN VE VD roll pitch heading mVN mVE mVD l0 l1 l2 sd | 0, 2 => ned2d_l_norate_H02 lat lon alt VN VE VD roll pitch heading mVN mVE mVD l0 l1 l2 sd | 0, 3 => ned2d_l_norate_H03 lat lon alt VN VE VD roll pitch heading mVN mVE mVD l0 l1 l2 sd | 0, 4 => ned2d_l_norate_H04 lat lon alt VN VE VD roll pitch heading mVN mVE mVD l0 l1 l2 sd | 0, 5 => ned2d_l_norate_H05 lat lon alt VN VE VD roll pitch heading mVN mVE mVD l0 l1 l2 sd | 0, 6 => ned2d_l_norate_H06 lat lon alt VN VE VD roll pitch heading mVN mVE mVD l0 l1 l2 sd
  | 1, 0 => ned2d_l_norate_H10 lat lon alt VN VE VD roll pitch heading mVN mVE mVD l0 l1 l2 sd | 1, 1 => ned2d_l_norate_H11 lat lon alt VN VE VD roll pitch heading mVN mVE mVD l0 l1 l2 sd | 1, 2 => ned2d_l_norate_H12 lat lon alt VN VE VD roll pitch heading mVN mVE mVD l0 l1 l2 sd | 1, 3 => ned2d_l_norate_H13 lat lon alt VN VE VD roll pitch heading mVN mVE mVD l0 l1 l2 sd | 1, 4 => ned2d_l_norate_H14 lat lon alt VN VE VD roll pitch heading mVN mVE mVD l0 l1 l2 sd | 1, 5 => ned2d_l_norate_H15 lat lon alt VN VE VD roll pitch heading mVN mVE mVD l0 l1 l2 sd | 1, 6 => ned2d_l_norate_H16 lat lon alt VN VE VD roll pitch heading mVN mVE mVD l0 l1 l2 sd
  | _, _ => 0%R
  end%nat.

Definition Rm_ned2d_l_norate (lat lon alt VN VE VD roll pitch heading mVN mVE mVD l0 l1 l2 sd : R) (i j : nat) : R :=
  match i, j with
  | 0, 0 => ned2d_l_norate_R00 lat lon alt VN VE VD roll pitch heading mVN mVE mVD l0 l1 l2 sd | 0, 1 => ned2d_l_norate_R01 lat lon alt VN VE VD roll pitch heading mVN mVE mVD l0 l1 l2 sd
  | 1, 0 => ned2d_l_norate_R10 lat lon alt VN VE VD roll pitch heading mVN mVE mVD l0 l1 l2 sd | 1, 1 => ned2d_l_norate_R11 lat lon alt VN VE VD roll pitch heading mVN mVE mVD l0 l1 l2 sd
  | _, _ => 0%R
  end%nat.

Definition Zc_ned2d_l_norate (lat lon alt VN VE VD roll pitch heading mVN mVE mVD l0 l1 l2 sd x0 x1 x2 x3 x4 x5 x6 : R) (k : nat) (e : R) : R :=
  match k with
  | 0 => on_corrected2d (fun a1 a2 a3 a4 a5 a6 a7 a8 a9 => ned2d_l_norate_z0 a1 a2 a3 a4 a5 a6 a7 a8 a9 mVN mVE mVD l0 l1 l2 sd) lat lon alt VN VE VD roll pitch heading x0 x1 x2 x3 x4 x5 x6 e
  | 1 => on_corrected2d (fun a1 a2 a3 a4 a5 a6 a7 a8 a9 => ned2d_l_norate_z1 a1 a2 a3 a4 a5 a6 a7 a8 a9 mVN mVE mVD l0 l1 l2 sd) lat lon alt VN VE VD roll pitch heading x0 x1 x2 x3 x4 x5 x6 e
  | _ => 0%R
  end%nat.

Definition Hm_body2d (lat lon alt VN VE VD roll pitch heading mVX mVY mVZ sd : R) (i j : nat) : R :=
  match i, j with
  | 0, 0 => body2d_H00 lat lon alt VN VE VD roll pitch heading mVX mVY mVZ sd | 0, 1 => body2d_H01 lat lon alt VN VE VD roll pitch heading mVX mVY mVZ sd | 0, 2 => body2d_H02 lat lon alt VN VE VD roll pitch heading mVX mVY mVZ sd | 0, 3 => body2d_H03 lat lon alt VN VE VD roll pitch heading mVX mVY mVZ sd | 0, 4 => body2d_H04 lat lon alt VN VE VD roll pitch heading mVX mVY mVZ sd | 0, 5 => body2d_H05 lat lon alt VN VE VD roll pitch heading mVX mVY mVZ sd | 0, 6 => body2d_H06 lat lon alt VN VE VD roll pitch heading mVX mVY mVZ sd
  | 1, 0 => body2d_H10 lat lon alt VN VE VD roll pitch heading mVX mVY mVZ sd | 1, 1 => body2d_H11 lat lon alt VN VE VD roll pitch heading mVX mVY mVZ sd | 1, 2 => body2d_H12 lat lon alt VN VE VD roll pitch heading mVX mVY mVZ sd | 1, 3 => body2d_H13 lat lon alt VN VE VD roll pitch heading mVX mVY mVZ sd | 1, 4 => body2d_H14 lat lon alt VN VE VD roll pitch heading mVX mVY mVZ sd | 1, 5 => body2d_H15 lat lon alt VN VE VD roll pitch heading mVX mVY mVZ sd | 1, 6 => body2d_H16 lat lon alt VN VE VD roll pitch heading mVX mVY mVZ sd
  | 2, 0 => body2d_H20 lat lon alt VN VE VD roll pitch heading mVX mVY mVZ sd | 2, 1 => body2d_H21 lat lon alt VN VE VD roll pitch heading mVX mVY mVZ sd | 2, 2 => body2d_H22 lat lon alt VN VE VD roll pitch heading mVX mVY mVZ sd | 2, 3 => body2d_H23 lat lon alt VN VE VD roll pitch heading mVX mVY mVZ sd | 2, 4 => body2d_H24 lat lon alt VN VE VD roll pitch heading mVX mVY mVZ sd | 2, 5 => body2d_H25 lat lon alt VN VE VD roll pitch heading mVX mVY mVZ sd | 2, 6 => body2d_H26 lat lon alt VN VE VD roll pitch heading mVX mVY mVZ sd
  | _, _ => 0%R
  end%nat.

Definition Rm_body2d (lat lon alt VN VE VD roll pitch heading mVX mVY mVZ sd : R) (i j : nat) : R :=
  match i, j with
  | 0, 0 => body2d_R00 lat lon alt VN VE VD roll pitch heading mVX mVY mVZ sd | 0, 1 => body2d_R01 lat lon alt VN VE VD roll pitch heading mVX mVY mVZ sd | 0, 2 => body2d_R02 lat lon alt VN VE VD roll pitch heading mVX mVY mVZ sd
  | 1, 0 => body2d_R10 lat lon alt VN VE VD roll pitch heading mVX mVY mVZ sd | 1, 1 => body2d_R11 lat lon alt VN VE VD roll pitch heading mVX mVY mVZ sd | 1, 2 => body2d_R12 lat lon alt VN VE VD roll pitch heading mVX mVY mVZ sd
  | 2, 0 => body2d_R20 lat lon alt VN VE VD roll pitch heading mVX mVY mVZ sd | 2, 1 => body2d_R21 lat lon alt VN VE VD roll pitch heading mVX mVY mVZ sd | 2, 2 => body2d_R22 lat lon alt VN VE VD roll pitch heading mVX mVY mVZ sd
  | _, _ => 0%R
  end%nat.

Definition Zc_body2d (lat lon alt VN VE VD roll pitch heading mVX mVY mVZ sd x0 x1 x2 x3 x4 x5 x6 : R) (k : nat) (e : R) : R :=
  match k with
  | 0 => on_corrected2d (fun a1 a2 a3 a4 a5 a6 a7 a8 a9 => body2d_z0 a1 a2 a3 a4 a5 a6 a7 a8 a9 mVX mVY mVZ sd) lat lon alt VN VE VD roll pitch heading x0 x1 x2 x3 x4 x5 x6 e
  | 1 => on_corrected2d (fun a1 a2 a3 a4 a5 a6 a7 a8 a9 => body2d_z1 a1 a2 a3 a4 a5 a6 a7 a8 a9 mVX mVY mVZ sd) lat lon alt VN VE VD roll pitch heading x0 x1 x2 x3 x4 x5 x6 e
  | 2 => on_corrected2d (fun a1 a2 a3 a4 a5 a6 a7 a8 a9 => body2d_z2 a1 a2 a3 a4 a5 a6 a7 a8 a9 mVX mVY mVZ sd) lat lon alt VN VE VD roll pitch heading x0 x1 x2 x3 x4 x5 x6 e
  | _ => 0%R
  end%nat.

Definition Hm_body2d_rate (lat lon alt VN VE VD roll pitch heading rate_x rate_y rate_z mVX mVY mVZ sd : R) (i j : nat) : R :=
  match i, j with
  | 0, 0 => body2d_rate_H00 lat lon alt VN VE VD roll pitch heading rate_x rate_y rate_z mVX mVY mVZ sd | 0, 1 => body2d_rate_H01 lat lon alt VN VE VD roll pitch heading rate_x rate_y rate_z mVX mVY mVZ sd | 0, 2 => body2d_rate_H02 lat lon alt VN VE VD roll pitch heading rate_x rate_y rate_z mVX mVY mVZ sd | 0, 3 => body2d_rate_H03 lat lon alt VN VE VD roll pitch heading rate_x rate_y rate_z mVX mVY mVZ sd | 0, 4 => body2d_rate_H04 lat lon alt VN VE VD roll pitch heading rate_x rate_y rate_z mVX mVY mVZ sd | 0, 5 => body2d_rate_H05 lat lon alt VN VE VD roll pitch heading rate_x rate_y rate_z mVX mVY mVZ sd | 0, 6 => body2d_rate_H06 lat lon alt VN VE VD roll pitch heading rate_x rate_y rate_z mVX mVY mVZ sd
  | 1, 0 => body2d_rate_H10 lat lon alt VN VE VD roll pitch heading rate_x rate_y rate_z mVX mVY mVZ sd | 1, 1 => body2d_rate_H11 lat lon alt VN VE VD roll pitch heading rate_x rate_y rate_z mVX mVY mVZ sd | 1, 2 => body2d_rate_H12 lat lon alt VN VE VD roll pitch heading rate_x rate_y rate_z mVX mVY mVZ sd | 1, 3 => body2d_rate_H13 lat lon alt VN VE VD roll pitch heading rate_x rate_y rate_z mVX mVY mVZ sd | 1, 4 => body2d_rate_H14 lat lon alt VN VE VD roll pitch heading rate_x rate_y rate_z mVX mVY mVZ sd | 1, 5 => body2d_rate_H15 lat lon alt VN VE VD roll pitch heading rate_x rate_y rate_z mVX mVY mVZ sd | 1, 6 => body2d_rate_H16 lat lon alt VN VE VD roll pitch heading rate_x rate_y rate_z mVX mVY mVZ sd
  | 2, 0 => body2d_rate_H20 lat lon alt VN VE VD roll pitch heading rate_x rate_y rate_z mVX mVY mVZ sd | 2, 1 => body2d_rate_H21 lat lon alt VN VE VD roll pitch heading rate_x rate_y rate_z mVX mVY mVZ sd | 2, 2 => body2d_rate_H22 lat lon alt VN VE VD roll pitch heading rate_x rate_y rate_z mVX mVY mVZ sd | 2, 3 => body2d_rate_H23 lat lon alt VN VE VD roll pitch heading rate_x rate_y rate_z mVX mVY mVZ sd | 2, 4 => body2d_rate_H24 lat lon alt VN VE VD roll pitch heading rate_x rate_y rate_z mVX mVY mVZ sd | 2, 5 => body2d_rate_H25 lat lon alt VN VE VD roll pitch heading rate_x rate_y rate_z mVX mVY mVZ sd | 2, 6 => body2d_rate_H26 lat lon alt VN VE VD roll pitch heading rate_x rate_y rate_z mVX mVY mVZ sd
  | _, _ => 0%R
  end%nat.

Definition Rm_body2d_rate (lat lon alt VN VE VD roll pitch heading rate_x rate_y rate_z mVX mVY mVZ sd : R) (i j : nat) : R :=
  match i, j with
  | 0, 0 => body2d_rate_R00 lat lon alt VN VE VD roll pitch heading rate_x rate_y rate_z mVX mVY mVZ sd | 0, 1 => body2d_rate_R01 lat lon alt VN VE VD roll pitch heading rate_x rate_y rate_z mVX mVY mVZ sd | 0, 2 => body2d_rate_R02 lat lon alt VN VE VD roll pitch heading rate_x rate_y rate_z mVX mVY mVZ sd
  | 1, 0 => body2d_rate_R10 lat lon alt VN VE VD roll pitch heading rate_x rate_y rate_z mVX mVY mVZ sd | 1, 1 => body2d_rate_R11 lat lon alt VN VE VD roll pitch heading rate_x rate_y rate_z mVX mVY mVZ sd | 1, 2 => body2d_rate_R12 lat lon alt VN VE VD roll pitch heading rate_x rate_y rate_z mVX mVY mVZ sd
  | 2, 0 => body2d_rate_R20 lat lon alt VN VE VD roll pitch heading rate_x rate_y rate_z mVX mVY mVZ sd | 2, 1 => body2d_rate_R21 lat lon alt VN VE VD roll pitch heading rate_x rate_y rate_z mVX mVY mVZ sd | 2, 2 => body2d_rate_R22 lat lon alt VN VE VD roll pitch heading rate_x rate_y rate_z mVX mVY mVZ sd
  | _, _ => 0%R
  end%nat.

Definition Zc_body2d_rate (lat lon alt VN VE VD roll pitch heading rate_x rate_y rate_z mVX mVY mVZ sd x0 x1 x2 x3 x4 x5 x6 : R) (k : nat) (e : R) : R :=
  match k with
  | 0 => on_corrected2d (fun a1 a2 a3 a4 a5 a6 a7 a8 a9 => body2d_rate_z0 a1 a2 a3 a4 a5 a6 a7 a8 a9 rate_x rate_y rate_z mVX mVY mVZ sd) lat lon alt VN VE VD roll pitch heading x0 x1 x2 x3 x4 x5 x6 e
  | 1 => on_corrected2d (fun a1 a2 a3 a4 a5 a6 a7 a8 a9 => body2d_rate_z1 a1 a2 a3 a4 a5 a6 a7 a8 a9 rate_x rate_y rate_z mVX mVY mVZ sd) lat lon alt VN VE VD roll pitch heading x0 x1 x2 x3 x4 x5 x6 e
  | 2 => on_corrected2d (fun a1 a2 a3 a4 a5 a6 a7 a8 a9 => body2d_rate_z2 a1 a2 a3 a4 a5 a6 a7 a8 a9 rate_x rate_y rate_z mVX mVY mVZ sd) lat lon alt VN VE VD roll pitch heading x0 x1 x2 x3 x4 x5 x6 e
  | _ => 0%R
  end%nat.

Create HintDb errstate_meas.
#[global] Hint Unfold pos3d_H00 pos3d_H01 pos3d_H02 pos3d_H03 pos3d_H04 pos3d_H05 pos3d_H06 pos3d_H07 pos3d_H08 pos3d_H10 pos3d_H11 pos3d_H12 pos3d_H13 pos3d_H14 pos3d_H15 pos3d_H16 pos3d_H17 pos3d_H18 pos3d_H20 pos3d_H21 pos3d_H22 pos3d_H23 pos3d_H24 pos3d_H25 pos3d_H26 pos3d_H27 pos3d_H28 pos3d_R00 pos3d_R01 pos3d_R02 pos3d_R10 pos3d_R11 pos3d_R12 pos3d_R20 pos3d_R21 pos3d_R22 pos3d_z0 pos3d_z1 pos3d_z2 : errstate_meas.
#[global] Hint Unfold pos3d_l_H00 pos3d_l_H01 pos3d_l_H02 pos3d_l_H03 pos3d_l_H04 pos3d_l_H05 pos3d_l_H06 pos3d_l_H07 pos3d_l_H08 pos3d_l_H10 pos3d_l_H11 pos3d_l_H12 pos3d_l_H13 pos3d_l_H14 pos3d_l_H15 pos3d_l_H16 pos3d_l_H17 pos3d_l_H18 pos3d_l_H20 pos3d_l_H21 pos3d_l_H22 pos3d_l_H23 pos3d_l_H24 pos3d_l_H25 pos3d_l_H26 pos3d_l_H27 pos3d_l_H28 pos3d_l_R00 pos3d_l_R01 pos3d_l_R02 pos3d_l_R10 pos3d_l_R11 pos3d_l_R12 pos3d_l_R20 pos3d_l_R21 pos3d_l_R22 pos3d_l_z0 pos3d_l_z1 pos3d_l_z2 : errstate_meas.
#[global] Hint Unfold ned3d_H00 ned3d_H01 ned3d_H02 ned3d_H03 ned3d_H04 ned3d_H05 ned3d_H06 ned3d_H07 ned3d_H08 ned3d_H10 ned3d_H11 ned3d_H12 ned3d_H13 ned3d_H14 ned3d_H15 ned3d_H16 ned3d_H17 ned3d_H18 ned3d_H20 ned3d_H21 ned3d_H22 ned3d_H23 ned3d_H24 ned3d_H25 ned3d_H26 ned3d_H27 ned3d_H28 ned3d_R00 ned3d_R01 ned3d_R02 ned3d_R10 ned3d_R11 ned3d_R12 ned3d_R20 ned3d_R21 ned3d_R22 ned3d_z0 ned3d_z1 ned3d_z2 : errstate_meas.
#[global] Hint Unfold ned3d_rate_H00 ned3d_rate_H01 ned3d_rate_H02 ned3d_rate_H03 ned3d_rate_H04 ned3d_rate_H05 ned3d_rate_H06 ned3d_rate_H07 ned3d_rate_H08 ned3d_rate_H10 ned3d_rate_H11 ned3d_rate_H12 ned3d_rate_H13 ned3d_rate_H14 ned3d_rate_H15 ned3d_rate_H16 ned3d_rate_H17 ned3d_rate_H18 ned3d_rate_H20 ned3d_rate_H21 ned3d_rate_H22 ned3d_rate_H23 ned3d_rate_H24 ned3d_rate_H25 ned3d_rate_H26 ned3d_rate_H27 ned3d_rate_H28 ned3d_rate_R00 ned3d_rate_R01 ned3d_rate_R02 ned3d_rate_R10 ned3d_rate_R11 ned3d_rate_R12 ned3d_rate_R20 ned3d_rate_R21 ned3d_rate_R22 ned3d_rate_z0 ned3d_rate_z1 ned3d_rate_z2 : errstate_meas.
#[global] Hint Unfold ned3d_l_H00 ned3d_l_H01 ned3d_l_H02 ned3d_l_H03 ned3d_l_H04 ned3d_l_H05 ned3d_l_H06 ned3d_l_H07 ned3d_l_H08 ned3d_l_H10 ned3d_l_H11 ned3d_l_H12 ned3d_l_H13 ned3d_l_H14 ned3d_l_H15 ned3d_l_H16 ned3d_l_H17 ned3d_l_H18 ned3d_l_H20 ned3d_l_H21 ned3d_l_H22 ned3d_l_H23 ned3d_l_H24 ned3d_l_H25 ned3d_l_H26 ned3d_l_H27 ned3d_l_H28 ned3d_l_R00 ned3d_l_R01 ned3d_l_R02 ned3d_l_R10 ned3d_l_R11 ned3d_l_R12 ned3d_l_R20 ned3d_l_R21 ned3d_l_R22 ned3d_l_z0 ned3d_l_z1 ned3d_l_z2 : errstate_meas.
#[global] Hint Unfold ned3d_l_norate_H00 ned3d_l_norate_H01 ned3d_l_norate_H02 ned3d_l_norate_H03 ned3d_l_norate_H04 ned3d_l_norate_H05 ned3d_l_norate_H06 ned3d_l_norate_H07 ned3d_l_norate_H08 ned3d_l_norate_H10 ned3d_l_norate_H11 ned3d_l_norate_H12 ned3d_l_norate_H13 ned3d_l_norate_H14 ned3d_l_norate_H15 ned3d_l_norate_H16 ned3d_l_norate_H17 ned3d_l_norate_H18 ned3d_l_norate_H20 ned3d_l_norate_H21 ned3d_l_norate_H22 ned3d_l_norate_H23 ned3d_l_norate_H24 ned3d_l_norate_H25 ned3d_l_norate_H26 ned3d_l_norate_H27 ned3d_l_norate_H28 ned3d_l_norate_R00 ned3d_l_norate_R01 ned3d_l_norate_R02 ned3d_l_norate_R10 ned3d_l_norate_R11 ned3d_l_norate_R12 ned3d_l_norate_R20 ned3d_l_norate_R21 ned3d_l_norate_R22 ned3d_l_norate_z0 ned3d_l_norate_z1 ned3d_l_norate_z2 : errstate_meas.
#[global] Hint Unfold body3d_H00 body3d_H01 body3d_H02 body3d_H03 body3d_H04 body3d_H05 body3d_H06 body3d_H07 body3d_H08 body3d_H10 body3d_H11 body3d_H12 body3d_H13 body3d_H14 body3d_H15 body3d_H16 body3d_H17 body3d_H18 body3d_H20 body3d_H21 body3d_H22 body3d_H23 body3d_H24 body3d_H25 body3d_H26 body3d_H27 body3d_H28 body3d_R00 body3d_R01 body3d_R02 body3d_R10 body3d_R11 body3d_R12 body3d_R20 body3d_R21 body3d_R22 body3d_z0 body3d_z1 body3d_z2 : errstate_meas.
#[global] Hint Unfold body3d_rate_H00 body3d_rate_H01 body3d_rate_H02 body3d_rate_H03 body3d_rate_H04 body3d_rate_H05 body3d_rate_H06 body3d_rate_H07 body3d_rate_H08 body3d_rate_H10 body3d_rate_H11 body3d_rate_H12 body3d_rate_H13 body3d_rate_H14 body3d_rate_H15 body3d_rate_H16 body3d_rate_H17 body3d_rate_H18 body3d_rate_H20 body3d_rate_H21 body3d_rate_H22 body3d_rate_H23 body3d_rate_H24 body3d_rate_H25 body3d_rate_H26 body3d_rate_H27 body3d_rate_H28 body3d_rate_R00 body3d_rate_R01 body3d_rate_R02 body3d_rate_R10 body3d_rate_R11 body3d_rate_R12 body3d_rate_R20 body3d_rate_R21 body3d_rate_R22 body3d_rate_z0 body3d_rate_z1 body3d_rate_z2 : errstate_meas.
#[global] Hint Unfold pos2d_H00 pos2d_H01 pos2d_H02 pos2d_H03 pos2d_H04 pos2d_H05 pos2d_H06 pos2d_H10 pos2d_H11 pos2d_H12 pos2d_H13 pos2d_H14 pos2d_H15 pos2d_H16 pos2d_R00 pos2d_R01 pos2d_R10 pos2d_R11 pos2d_z0 pos2d_z1 : errstate_meas.
#[global] Hint Unfold pos2d_l_H00 pos2d_l_H01 pos2d_l_H02 pos2d_l_H03 pos2d_l_H04 pos2d_l_H05 pos2d_l_H06 pos2d_l_H10 pos2d_l_H11 pos2d_l_H12 pos2d_l_H13 pos2d_l_H14 pos2d_l_H15 pos2d_l_H16 pos2d_l_R00 pos2d_l_R01 pos2d_l_R10 pos2d_l_R11 pos2d_l_z0 pos2d_l_z1 : errstate_meas.
#[global] Hint Unfold ned2d_H00 ned2d_H01 ned2d_H02 ned2d_H03 ned2d_H04 ned2d_H05 ned2d_H06 ned2d_H10 ned2d_H11 ned2d_H12 ned2d_H13 ned2d_H14 ned2d_H15 ned2d_H16 ned2d_R00 ned2d_R01 ned2d_R10 ned2d_R11 ned2d_z0 ned2d_z1 : errstate_meas.
#[global] Hint Unfold ned2d_rate_H00 ned2d_rate_H01 ned2d_rate_H02 ned2d_rate_H03 ned2d_rate_H04 ned2d_rate_H05 ned2d_rate_H06 ned2d_rate_H10 ned2d_rate_H11 ned2d_rate_H12 ned2d_rate_H13 ned2d_rate_H14 ned2d_rate_H15 ned2d_rate_H16 ned2d_rate_R00 ned2d_rate_R01 ned2d_rate_R10 ned2d_rate_R11 ned2d_rate_z0 ned2d_rate_z1 : errstate_meas.
#[global] Hint Unfold ned2d_l_H00 ned2d_l_H01 ned2d_l_H02 ned2d_l_H03 ned2d_l_H04 ned2d_l_H05 ned2d_l_H06 ned2d_l_H10 ned2d_l_H11 ned2d_l_H12 ned2d_l_H13 ned2d_l_H14 ned2d_l_H15 ned2d_l_H16 ned2d_l_R00 ned2d_l_R01 ned2d_l_R10 ned2d_l_R11 ned2d_l_z0 ned2d_l_z1 : errstate_meas.
#[global] Hint Unfold ned2d_l_norate_H00 ned2d_l_norate_H01 ned2d_l_norate_H02 ned2d_l_norate_H03 ned2d_l_norate_H04 ned2d_l_norate_H05 ned2d_l_norate_H06 ned2d_l_norate_H10 ned2d_l_norate_H11 ned2d_l_norate_H12 ned2d_l_norate_H13 ned2d_l_norate_H14 ned2d_l_norate_H15 ned2d_l_norate_H16 ned2d_l_norate_R00 ned2d_l_norate_R01 ned2d_l_norate_R10 ned2d_l_norate_R11 ned2d_l_norate_z0 ned2d_l_norate_z1 : errstate_meas.
#[global] Hint Unfold body2d_H00 body2d_H01 body2d_H02 body2d_H03 body2d_H04 body2d_H05 body2d_H06 body2d_H10 body2d_H11 body2d_H12 body2d_H13 body2d_H14 body2d_H15 body2d_H16 body2d_H20 body2d_H21 body2d_H22 body2d_H23 body2d_H24 body2d_H25 body2d_H26 body2d_R00 body2d_R01 body2d_R02 body2d_R10 body2d_R11 body2d_R12 body2d_R20 body2d_R21 body2d_R22 body2d_z0 body2d_z1 body2d_z2 : errstate_meas.
#[global] Hint Unfold body2d_rate_H00 body2d_rate_H01 body2d_rate_H02 body2d_rate_H03 body2d_rate_H04 body2d_rate_H05 body2d_rate_H06 body2d_rate_H10 body2d_rate_H11 body2d_rate_H12 body2d_rate_H13 body2d_rate_H14 body2d_rate_H15 body2d_rate_H16 body2d_rate_H20 body2d_rate_H21 body2d_rate_H22 body2d_rate_H23 body2d_rate_H24 body2d_rate_H25 body2d_rate_H26 body2d_rate_R00 body2d_rate_R01 body2d_rate_R02 body2d_rate_R10 body2d_rate_R11 body2d_rate_R12 body2d_rate_R20 body2d_rate_R21 body2d_rate_R22 body2d_rate_z0 body2d_rate_z1 body2d_rate_z2 : errstate_meas.

(** ** D.1  H is the Jacobian of the residual under the library's own correction: velocity classes
    d/de z(correct_pva(pva, e x)) at 0 = - H x, for every measured value, lever arm, body rate. *)
Section Meas3D.
Variables lat lon alt VN VE VD roll pitch heading : R.
Variables x0 x1 x2 x3 x4 x5 x6 x7 x8 : R.
Variables rate_x rate_y rate_z l0 l1 l2 sd mlat mlon malt mVN mVE mVD mVX mVY mVZ : R.
Hypothesis Hroll : -180 < roll < 180.
Hypothesis Hpitch : -90 < pitch < 90.
Hypothesis Hheading : -180 < heading < 180.

Ltac corr_facts :=
  pose proof (corr3_VN lat lon alt VN VE VD roll pitch heading x0 x1 x2 x3 x4 x5 x6 x7 x8) as FVN;
  pose proof (corr3_VE lat lon alt VN VE VD roll pitch heading x0 x1 x2 x3 x4 x5 x6 x7 x8) as FVE;
  pose proof (corr3_VD lat lon alt VN VE VD roll pitch heading x0 x1 x2 x3 x4 x5 x6 x7 x8) as FVD;
  pose proof (corr3_roll lat lon alt VN VE VD roll pitch heading x0 x1 x2 x3 x4 x5 x6 x7 x8 Hroll Hpitch) as Froll;
  pose proof (corr3_pitch lat lon alt VN VE VD roll pitch heading x0 x1 x2 x3 x4 x5 x6 x7 x8 Hpitch) as Fpitch;
  pose proof (corr3_heading lat lon alt VN VE VD roll pitch heading x0 x1 x2 x3 x4 x5 x6 x7 x8 Hpitch Hheading) as Fheading;
  destruct (corr3_at0 lat lon alt VN VE VD roll pitch heading x0 x1 x2 x3 x4 x5 x6 x7 x8 Hroll Hpitch Hheading)
    as [Vlat [Vlon [Valt [VVN [VVE [VVD [Vroll [Vpitch Vheading]]]]]]]];
  cbv beta in *;
  pose proof (cos_d2r_pos pitch Hpitch) as Hcp; pose proof PI_neq0 as Hpi.

Lemma H_is_jacobian_ned3d : forall k, (k < 3)%nat ->
  is_derive (Zc_ned3d lat lon alt VN VE VD roll pitch heading mVN mVE mVD sd x0 x1 x2 x3 x4 x5 x6 x7 x8 k) 0
    (- mvec 9 (Hm_ned3d lat lon alt VN VE VD roll pitch heading mVN mVE mVD sd) (vec9 x0 x1 x2 x3 x4 x5 x6 x7 x8) k).
Proof.
  intros k Hk. corr_facts.
  idx k; cbv [Zc_ned3d on_corrected3d]; autounfold with errstate_meas; autounfold with ned3d_db;
  (auto_derive; [splits; try exact I; eexists; eassumption|]);
  try derive_val FVN; try derive_val FVE; try derive_val FVD;
  try derive_val Froll; try derive_val Fpitch; try derive_val Fheading;
  rewrite ?VVN, ?VVE, ?VVD, ?Vroll, ?Vpitch, ?Vheading;
  cbv [mvec sumN Tout3 Hm_ned3d vec9];
  autounfold with errstate_mat errstate_meas; autounfold with to_output3d_db ned3d_db;
  trig_abbrev roll pitch heading;
  first [ ring [Hr Hp Hh] | field_simplify_eq; [ring [Hr Hp Hh] | try split; try assumption; lra] ].
Qed.

Lemma H_is_jacobian_ned3d_rate : forall k, (k < 3)%nat ->
  is_derive (Zc_ned3d_rate lat lon alt VN VE VD roll pitch heading rate_x rate_y rate_z mVN mVE mVD sd x0 x1 x2 x3 x4 x5 x6 x7 x8 k) 0
    (- mvec 9 (Hm_ned3d_rate lat lon alt VN VE VD roll pitch heading rate_x rate_y rate_z mVN mVE mVD sd) (vec9 x0 x1 x2 x3 x4 x5 x6 x7 x8) k).
Proof.
  intros k Hk. corr_facts.
  idx k; cbv [Zc_ned3d_rate on_corrected3d]; autounfold with errstate_meas; autounfold with ned3d_rate_db;
  (auto_derive; [splits; try exact I; eexists; eassumption|]);
  try derive_val FVN; try derive_val FVE; try derive_val FVD;
  try derive_val Froll; try derive_val Fpitch; try derive_val Fheading;
  rewrite ?VVN, ?VVE, ?VVD, ?Vroll, ?Vpitch, ?Vheading;
  cbv [mvec sumN Tout3 Hm_ned3d_rate vec9];
  autounfold with errstate_mat errstate_meas; autounfold with to_output3d_db ned3d_rate_db;
  trig_abbrev roll pitch heading;
  first [ ring [Hr Hp Hh] | field_simplify_eq; [ring [Hr Hp Hh] | try split; try assumption; lra] ].
Qed.

Lemma H_is_jacobian_ned3d_l : forall k, (k < 3)%nat ->
  is_derive (Zc_ned3d_l lat lon alt VN VE VD roll pitch heading rate_x rate_y rate_z mVN mVE mVD l0 l1 l2 sd x0 x1 x2 x3 x4 x5 x6 x7 x8 k) 0
    (- mvec 9 (Hm_ned3d_l lat lon alt VN VE VD roll pitch heading rate_x rate_y rate_z mVN mVE mVD l0 l1 l2 sd) (vec9 x0 x1 x2 x3 x4 x5 x6 x7 x8) k).
Proof.
  intros k Hk. corr_facts.
  idx k; cbv [Zc_ned3d_l on_corrected3d]; autounfold with errstate_meas; autounfold with ned3d_l_db;
  (auto_derive; [splits; try exact I; eexists; eassumption|]);
  try derive_val FVN; try derive_val FVE; try derive_val FVD;
  try derive_val Froll; try derive_val Fpitch; try derive_val Fheading;
  rewrite ?VVN, ?VVE, ?VVD, ?Vroll, ?Vpitch, ?Vheading;
  cbv [mvec sumN Tout3 Hm_ned3d_l vec9];
  autounfold with errstate_mat errstate_meas; autounfold with to_output3d_db ned3d_l_db;
  trig_abbrev roll pitch heading;
  first [ ring [Hr Hp Hh] | field_simplify_eq; [ring [Hr Hp Hh] | try split; try assumption; lra] ].
Qed.

Lemma H_is_jacobian_ned3d_l_norate : forall k, (k < 3)%nat ->
  is_derive (Zc_ned3d_l_norate lat lon alt VN VE VD roll pitch heading mVN mVE mVD l0 l1 l2 sd x0 x1 x2 x3 x4 x5 x6 x7 x8 k) 0
    (- mvec 9 (Hm_ned3d_l_norate lat lon alt VN VE VD roll pitch heading mVN mVE mVD l0 l1 l2 sd) (vec9 x0 x1 x2 x3 x4 x5 x6 x7 x8) k).
Proof.
  intros k Hk. corr_facts.
  idx k; cbv [Zc_ned3d_l_norate on_corrected3d]; autounfold with errstate_meas; autounfold with ned3d_l_norate_db;
  (auto_derive; [splits; try exact I; eexists; eassumption|]);
  try derive_val FVN; try derive_val FVE; try derive_val FVD;
  try derive_val Froll; try derive_val Fpitch; try derive_val Fheading;
  rewrite ?VVN, ?VVE, ?VVD, ?Vroll, ?Vpitch, ?Vheading;
  cbv [mvec sumN Tout3 Hm_ned3d_l_norate vec9];
  autounfold with errstate_mat errstate_meas; autounfold with to_output3d_db ned3d_l_norate_db;
  trig_abbrev roll pitch heading;
  first [ ring [Hr Hp Hh] | field_simplify_eq; [ring [Hr Hp Hh] | try split; try assumption; lra] ].
Qed.

Lemma H_is_jacobian_body3d : forall k, (k < 3)%nat ->
  is_derive (Zc_body3d lat lon alt VN VE VD roll pitch heading mVX mVY mVZ sd x0 x1 x2 x3 x4 x5 x6 x7 x8 k) 0
    (- mvec 9 (Hm_body3d lat lon alt VN VE VD roll pitch heading mVX mVY mVZ sd) (vec9 x0 x1 x2 x3 x4 x5 x6 x7 x8) k).
Proof.
  intros k Hk. corr_facts.
  idx k; cbv [Zc_body3d on_corrected3d]; autounfold with errstate_meas; autounfold with body3d_db;
  (auto_derive; [splits; try exact I; eexists; eassumption|]);
  try derive_val FVN; try derive_val FVE; try derive_val FVD;
  try derive_val Froll; try derive_val Fpitch; try derive_val Fheading;
  rewrite ?VVN, ?VVE, ?VVD, ?Vroll, ?Vpitch, ?Vheading;
  cbv [mvec sumN Tout3 Hm_body3d vec9];
  autounfold with errstate_mat errstate_meas; autounfold with to_output3d_db body3d_db;
  trig_abbrev roll pitch heading;
  first [ ring [Hr Hp Hh] | field_simplify_eq; [ring [Hr Hp Hh] | try split; try assumption; lra] ].
Qed.

Lemma H_is_jacobian_body3d_rate : forall k, (k < 3)%nat ->
  is_derive (Zc_body3d_rate lat lon alt VN VE VD roll pitch heading rate_x rate_y rate_z mVX mVY mVZ sd x0 x1 x2 x3 x4 x5 x6 x7 x8 k) 0
    (- mvec 9 (Hm_body3d_rate lat lon alt VN VE VD roll pitch heading rate_x rate_y rate_z mVX mVY mVZ sd) (vec9 x0 x1 x2 x3 x4 x5 x6 x7 x8) k).
Proof.
  intros k Hk. corr_facts.
  idx k; cbv [Zc_body3d_rate on_corrected3d]; autounfold with errstate_meas; autounfold with body3d_rate_db;
  (auto_derive; [splits; try exact I; eexists; eassumption|]);
  try derive_val FVN; try derive_val FVE; try derive_val FVD;
  try derive_val Froll; try derive_val Fpitch; try derive_val Fheading;
  rewrite ?VVN, ?VVE, ?VVD, ?Vroll, ?Vpitch, ?Vheading;
  cbv [mvec sumN Tout3 Hm_body3d_rate vec9];
  autounfold with errstate_mat errstate_meas; autounfold with to_output3d_db body3d_rate_db;
  trig_abbrev roll pitch heading;
  first [ ring [Hr Hp Hh] | field_simplify_eq; [ring [Hr Hp Hh] | try split; try assumption; lra] ].
Qed.

End Meas3D.

Section Meas2D.
Variables lat lon alt VN VE VD roll pitch heading : R.
Variables x0 x1 x2 x3 x4 x5 x6 : R.
Variables rate_x rate_y rate_z l0 l1 l2 sd mlat mlon malt mVN mVE mVD mVX mVY mVZ : R.
Hypothesis Hroll : -180 < roll < 180.
Hypothesis Hpitch : -90 < pitch < 90.
Hypothesis Hheading : -180 < heading < 180.

Ltac corr_facts :=
  pose proof (corr2_VN lat lon alt VN VE VD roll pitch heading x0 x1 x2 x3 x4 x5 x6) as FVN;
  pose proof (corr2_VE lat lon alt VN VE VD roll pitch heading x0 x1 x2 x3 x4 x5 x6) as FVE;
  pose proof (corr2_VD lat lon alt VN VE VD roll pitch heading x0 x1 x2 x3 x4 x5 x6) as FVD;
  pose proof (corr2_roll lat lon alt VN VE VD roll pitch heading x0 x1 x2 x3 x4 x5 x6 Hroll Hpitch) as Froll;
  pose proof (corr2_pitch lat lon alt VN VE VD roll pitch heading x0 x1 x2 x3 x4 x5 x6 Hpitch) as Fpitch;
  pose proof (corr2_heading lat lon alt VN VE VD roll pitch heading x0 x1 x2 x3 x4 x5 x6 Hpitch Hheading) as Fheading;
  destruct (corr2_at0 lat lon alt VN VE VD roll pitch heading x0 x1 x2 x3 x4 x5 x6 Hroll Hpitch Hheading)
    as [Vlat [Vlon [Valt [VVN [VVE [VVD [Vroll [Vpitch Vheading]]]]]]]];
  cbv beta in *;
  pose proof (cos_d2r_pos pitch Hpitch) as Hcp; pose proof PI_neq0 as Hpi.

Lemma H_is_jacobian_ned2d : forall k, (k < 2)%nat ->
  is_derive (Zc_ned2d lat lon alt VN VE VD roll pitch heading mVN mVE mVD sd x0 x1 x2 x3 x4 x5 x6 k) 0
    (- mvec 7 (Hm_ned2d lat lon alt VN VE VD roll pitch heading mVN mVE mVD sd) (vec7 x0 x1 x2 x3 x4 x5 x6) k).
Proof.
  intros k Hk. corr_facts.
  idx k; cbv [Zc_ned2d on_corrected2d]; autounfold with errstate_meas; autounfold with ned2d_db;
  (auto_derive; [splits; try exact I; eexists; eassumption|]);
  try derive_val FVN; try derive_val FVE; try derive_val FVD;
  try derive_val Froll; try derive_val Fpitch; try derive_val Fheading;
  rewrite ?VVN, ?VVE, ?VVD, ?Vroll, ?Vpitch, ?Vheading;
  cbv [mvec sumN Tout2 Hm_ned2d vec7];
  autounfold with errstate_mat errstate_meas; autounfold with to_output2d_db ned2d_db;
  trig_abbrev roll pitch heading;
  first [ ring [Hr Hp Hh] | field_simplify_eq; [ring [Hr Hp Hh] | try split; try assumption; lra] ].
Qed.

Lemma H_is_jacobian_ned2d_rate : forall k, (k < 2)%nat ->
  is_derive (Zc_ned2d_rate lat lon alt VN VE VD roll pitch heading rate_x rate_y rate_z mVN mVE mVD sd x0 x1 x2 x3 x4 x5 x6 k) 0
    (- mvec 7 (Hm_ned2d_rate lat lon alt VN VE VD roll pitch heading rate_x rate_y rate_z mVN mVE mVD sd) (vec7 x0 x1 x2 x3 x4 x5 x6) k).
Proof.
  intros k Hk. corr_facts.
  idx k; cbv [Zc_ned2d_rate on_corrected2d]; autounfold with errstate_meas; autounfold with ned2d_rate_db;
  (auto_derive; [splits; try exact I; eexists; eassumption|]);
  try derive_val FVN; try derive_val FVE; try derive_val FVD;
  try derive_val Froll; try derive_val Fpitch; try derive_val Fheading;
  rewrite ?VVN, ?VVE, ?VVD, ?Vroll, ?Vpitch, ?Vheading;
  cbv [mvec sumN Tout2 Hm_ned2d_rate vec7];
  autounfold with errstate_mat errstate_meas; autounfold with to_output2d_db ned2d_rate_db;
  trig_abbrev roll pitch heading;
  first [ ring [Hr Hp Hh] | field_simplify_eq; [ring [Hr Hp Hh] | try split; try assumption; lra] ].
Qed.

Lemma H_is_jacobian_ned2d_l : forall k, (k < 2)%nat ->
  is_derive (Zc_ned2d_l lat lon alt VN VE VD roll pitch heading rate_x rate_y rate_z mVN mVE mVD l0 l1 l2 sd x0 x1 x2 x3 x4 x5 x6 k) 0
    (- mvec 7 (Hm_ned2d_l lat lon alt VN VE VD roll pitch heading rate_x rate_y rate_z mVN mVE mVD l0 l1 l2 sd) (vec7 x0 x1 x2 x3 x4 x5 x6) k).
Proof.
  intros k Hk. corr_facts.
  idx k; cbv [Zc_ned2d_l on_corrected2d]; autounfold with errstate_meas; autounfold with ned2d_l_db;
  (auto_derive; [splits; try exact I; eexists; eassumption|]);
  try derive_val FVN; try derive_val FVE; try derive_val FVD;
  try derive_val Froll; try derive_val Fpitch; try derive_val Fheading;
  rewrite ?VVN, ?VVE, ?VVD, ?Vroll, ?Vpitch, ?Vheading;
  cbv [mvec sumN Tout2 Hm_ned2d_l vec7];
  autounfold with errstate_mat errstate_meas; autounfold with to_output2d_db ned2d_l_db;
  trig_abbrev roll pitch heading;
  first [ ring [Hr Hp Hh] | field_simplify_eq; [ring [Hr Hp Hh] | try split; try assumption; lra] ].
Qed.

Lemma H_is_jacobian_ned2d_l_norate : forall k, (k < 2)%nat ->
  is_derive (Zc_ned2d_l_norate lat lon alt VN VE VD roll pitch heading mVN mVE mVD l0 l1 l2 sd x0 x1 x2 x3 x4 x5 x6 k) 0
    (- mvec 7 (Hm_ned2d_l_norate lat lon alt VN VE VD roll pitch heading mVN mVE mVD l0 l1 l2 sd) (vec7 x0 x1 x2 x3 x4 x5 x6) k).
Proof.
  intros k Hk. corr_facts.
  idx k; cbv [Zc_ned2d_l_norate on_corrected2d]; autounfold with errstate_meas; autounfold with ned2d_l_norate_db;
  (auto_derive; [splits; try exact I; eexists; eassumption|]);
  try derive_val FVN; try derive_val FVE; try derive_val FVD;
  try derive_val Froll; try derive_val Fpitch; try derive_val Fheading;
  rewrite ?VVN, ?VVE, ?VVD, ?Vroll, ?Vpitch, ?Vheading;
  cbv [mvec sumN Tout2 Hm_ned2d_l_norate vec7];
  autounfold with errstate_mat errstate_meas; autounfold with to_output2d_db ned2d_l_norate_db;
  trig_abbrev roll pitch heading;
  first [ ring [Hr Hp Hh] | field_simplify_eq; [ring [Hr Hp Hh] | try split; try assumption; lra] ].
Qed.

Lemma H_is_jacobian_body2d : forall k, (k < 3)%nat ->
  is_derive (Zc_body2d lat lon alt VN VE VD roll pitch heading mVX mVY mVZ sd x0 x1 x2 x3 x4 x5 x6 k) 0
    (- mvec 7 (Hm_body2d lat lon alt VN VE VD roll pitch heading mVX mVY mVZ sd) (vec7 x0 x1 x2 x3 x4 x5 x6) k).
Proof.
  intros k Hk. corr_facts.
  idx k; cbv [Zc_body2d on_corrected2d]; autounfold with errstate_meas; autounfold with body2d_db;
  (auto_derive; [splits; try exact I; eexists; eassumption|]);
  try derive_val FVN; try derive_val FVE; try derive_val FVD;
  try derive_val Froll; try derive_val Fpitch; try derive_val Fheading;
  rewrite ?VVN, ?VVE, ?VVD, ?Vroll, ?Vpitch, ?Vheading;
  cbv [mvec sumN Tout2 Hm_body2d vec7];
  autounfold with errstate_mat errstate_meas; autounfold with to_output2d_db body2d_db;
  trig_abbrev roll pitch heading;
  first [ ring [Hr Hp Hh] | field_simplify_eq; [ring [Hr Hp Hh] | try split; try assumption; lra] ].
Qed.

Lemma H_is_jacobian_body2d_rate : forall k, (k < 3)%nat ->
  is_derive (Zc_body2d_rate lat lon alt VN VE VD roll pitch heading rate_x rate_y rate_z mVX mVY mVZ sd x0 x1 x2 x3 x4 x5 x6 k) 0
    (- mvec 7 (Hm_body2d_rate lat lon alt VN VE VD roll pitch heading rate_x rate_y rate_z mVX mVY mVZ sd) (vec7 x0 x1 x2 x3 x4 x5 x6) k).
Proof.
  intros k Hk. corr_facts.
  idx k; cbv [Zc_body2d_rate on_corrected2d]; autounfold with errstate_meas; autounfold with body2d_rate_db;
  (auto_derive; [splits; try exact I; eexists; eassumption|]);
  try derive_val FVN; try derive_val FVE; try derive_val FVD;
  try derive_val Froll; try derive_val Fpitch; try derive_val Fheading;
  rewrite ?VVN, ?VVE, ?VVD, ?Vroll, ?Vpitch, ?Vheading;
  cbv [mvec sumN Tout2 Hm_body2d_rate vec7];
  autounfold with errstate_mat errstate_meas; autounfold with to_output2d_db body2d_rate_db;
  trig_abbrev roll pitch heading;
  first [ ring [Hr Hp Hh] | field_simplify_eq; [ring [Hr Hp Hh] | try split; try assumption; lra] ].
Qed.

End Meas2D.

(** ** D.2  Position class.  The residual uses compute_lla_difference with the radii at the MID point of
    predicted and measured position, so H is the exact Jacobian at the linearisation point
    "measured position = predicted position" (the three measured arguments are lat lon alt below);
    away from it the two differ by a relative O(|z| / Earth radius) -- see tools/props/C06.py. *)
(* (the position-class sections follow D.3, whose residual_form lemmas they use) *)

(** ** D.3  noise matrix, residual form (sign and units), equal configurations *)

(** predicted quantities, written with the GENERATED transform.mat_from_rph / compute_lla_difference *)
Definition Cnb (roll pitch heading : R) (i j : nat) : R :=
  match i, j with
  | 0, 0 => mat_from_rph_m00 roll pitch heading | 0, 1 => mat_from_rph_m01 roll pitch heading | 0, 2 => mat_from_rph_m02 roll pitch heading
  | 1, 0 => mat_from_rph_m10 roll pitch heading | 1, 1 => mat_from_rph_m11 roll pitch heading | 1, 2 => mat_from_rph_m12 roll pitch heading
  | 2, 0 => mat_from_rph_m20 roll pitch heading | 2, 1 => mat_from_rph_m21 roll pitch heading | 2, 2 => mat_from_rph_m22 roll pitch heading
  | _, _ => 0%R
  end%nat.
Definition vec3 (a b c : R) (k : nat) : R := match k with 0%nat => a | 1%nat => b | 2%nat => c | _ => 0 end.
Definition cross3 (a b : nat -> R) (k : nat) : R :=
  match k with
  | 0%nat => a 1%nat * b 2%nat - a 2%nat * b 1%nat
  | 1%nat => a 2%nat * b 0%nat - a 0%nat * b 2%nat
  | 2%nat => a 0%nat * b 1%nat - a 1%nat * b 0%nat
  | _ => 0 end.
(** C_nb^T v *)
Definition mtvec3 (A : mat) (v : nat -> R) (k : nat) : R := A 0%nat k * v 0%nat + A 1%nat k * v 1%nat + A 2%nat k * v 2%nat.
Definition lla_diff (lat1 lon1 alt1 lat2 lon2 alt2 : R) (k : nat) : R :=
  match k with
  | 0%nat => compute_lla_difference_d0 lat1 lon1 alt1 lat2 lon2 alt2
  | 1%nat => compute_lla_difference_d1 lat1 lon1 alt1 lat2 lon2 alt2
  | 2%nat => compute_lla_difference_d2 lat1 lon1 alt1 lat2 lon2 alt2
  | _ => 0 end.

Ltac unf_pred :=
  cbv [Cnb vec3 cross3 mtvec3 mvec sumN lla_diff];
  unfold mat_from_rph_m00, mat_from_rph_m01, mat_from_rph_m02, mat_from_rph_m10, mat_from_rph_m11,
    mat_from_rph_m12, mat_from_rph_m20, mat_from_rph_m21, mat_from_rph_m22,
    compute_lla_difference_d0, compute_lla_difference_d1, compute_lla_difference_d2;
  autounfold with mat_from_rph_db compute_lla_difference_db.

Lemma R_matches_pos3d lat lon alt VN VE VD roll pitch heading mlat mlon malt sd :
  meq 3 3 (Rm_pos3d lat lon alt VN VE VD roll pitch heading mlat mlon malt sd) (fun i j => if Nat.eqb i j then sd * sd else 0).
Proof.
  intros i j Hi Hj; idx i; idx j; cbv [Rm_pos3d Nat.eqb]; autounfold with errstate_meas; autounfold with pos3d_db; reflexivity.
Qed.

Lemma residual_form_pos3d lat lon alt VN VE VD roll pitch heading mlat mlon malt sd : forall k, (k < 3)%nat ->
  (match k with | 0 => pos3d_z0 lat lon alt VN VE VD roll pitch heading mlat mlon malt sd | 1 => pos3d_z1 lat lon alt VN VE VD roll pitch heading mlat mlon malt sd | 2 => pos3d_z2 lat lon alt VN VE VD roll pitch heading mlat mlon malt sd | _ => 0%R end)%nat = lla_diff lat lon alt mlat mlon malt k.
Proof.
  intros k Hk; idx k; autounfold with errstate_meas; autounfold with pos3d_db; unf_pred; ring.
Qed.

Lemma R_matches_pos3d_l lat lon alt VN VE VD roll pitch heading mlat mlon malt l0 l1 l2 sd :
  meq 3 3 (Rm_pos3d_l lat lon alt VN VE VD roll pitch heading mlat mlon malt l0 l1 l2 sd) (fun i j => if Nat.eqb i j then sd * sd else 0).
Proof.
  intros i j Hi Hj; idx i; idx j; cbv [Rm_pos3d_l Nat.eqb]; autounfold with errstate_meas; autounfold with pos3d_l_db; reflexivity.
Qed.

Lemma residual_form_pos3d_l lat lon alt VN VE VD roll pitch heading mlat mlon malt l0 l1 l2 sd : forall k, (k < 3)%nat ->
  (match k with | 0 => pos3d_l_z0 lat lon alt VN VE VD roll pitch heading mlat mlon malt l0 l1 l2 sd | 1 => pos3d_l_z1 lat lon alt VN VE VD roll pitch heading mlat mlon malt l0 l1 l2 sd | 2 => pos3d_l_z2 lat lon alt VN VE VD roll pitch heading mlat mlon malt l0 l1 l2 sd | _ => 0%R end)%nat = lla_diff lat lon alt mlat mlon malt k + mvec 3 (Cnb roll pitch heading) (vec3 l0 l1 l2) k.
Proof.
  intros k Hk; idx k; autounfold with errstate_meas; autounfold with pos3d_l_db; unf_pred; ring.
Qed.

Lemma R_matches_ned3d lat lon alt VN VE VD roll pitch heading mVN mVE mVD sd :
  meq 3 3 (Rm_ned3d lat lon alt VN VE VD roll pitch heading mVN mVE mVD sd) (fun i j => if Nat.eqb i j then sd * sd else 0).
Proof.
  intros i j Hi Hj; idx i; idx j; cbv [Rm_ned3d Nat.eqb]; autounfold with errstate_meas; autounfold with ned3d_db; reflexivity.
Qed.

Lemma residual_form_ned3d lat lon alt VN VE VD roll pitch heading mVN mVE mVD sd : forall k, (k < 3)%nat ->
  (match k with | 0 => ned3d_z0 lat lon alt VN VE VD roll pitch heading mVN mVE mVD sd | 1 => ned3d_z1 lat lon alt VN VE VD roll pitch heading mVN mVE mVD sd | 2 => ned3d_z2 lat lon alt VN VE VD roll pitch heading mVN mVE mVD sd | _ => 0%R end)%nat = vec3 VN VE VD k - vec3 mVN mVE mVD k.
Proof.
  intros k Hk; idx k; autounfold with errstate_meas; autounfold with ned3d_db; unf_pred; ring.
Qed.

Lemma R_matches_ned3d_rate lat lon alt VN VE VD roll pitch heading rate_x rate_y rate_z mVN mVE mVD sd :
  meq 3 3 (Rm_ned3d_rate lat lon alt VN VE VD roll pitch heading rate_x rate_y rate_z mVN mVE mVD sd) (fun i j => if Nat.eqb i j then sd * sd else 0).
Proof.
  intros i j Hi Hj; idx i; idx j; cbv [Rm_ned3d_rate Nat.eqb]; autounfold with errstate_meas; autounfold with ned3d_rate_db; reflexivity.
Qed.

Lemma residual_form_ned3d_rate lat lon alt VN VE VD roll pitch heading rate_x rate_y rate_z mVN mVE mVD sd : forall k, (k < 3)%nat ->
  (match k with | 0 => ned3d_rate_z0 lat lon alt VN VE VD roll pitch heading rate_x rate_y rate_z mVN mVE mVD sd | 1 => ned3d_rate_z1 lat lon alt VN VE VD roll pitch heading rate_x rate_y rate_z mVN mVE mVD sd | 2 => ned3d_rate_z2 lat lon alt VN VE VD roll pitch heading rate_x rate_y rate_z mVN mVE mVD sd | _ => 0%R end)%nat = vec3 VN VE VD k - vec3 mVN mVE mVD k.
Proof.
  intros k Hk; idx k; autounfold with errstate_meas; autounfold with ned3d_rate_db; unf_pred; ring.
Qed.

Lemma R_matches_ned3d_l lat lon alt VN VE VD roll pitch heading rate_x rate_y rate_z mVN mVE mVD l0 l1 l2 sd :
  meq 3 3 (Rm_ned3d_l lat lon alt VN VE VD roll pitch heading rate_x rate_y rate_z mVN mVE mVD l0 l1 l2 sd) (fun i j => if Nat.eqb i j then sd * sd else 0).
Proof.
  intros i j Hi Hj; idx i; idx j; cbv [Rm_ned3d_l Nat.eqb]; autounfold with errstate_meas; autounfold with ned3d_l_db; reflexivity.
Qed.

Lemma residual_form_ned3d_l lat lon alt VN VE VD roll pitch heading rate_x rate_y rate_z mVN mVE mVD l0 l1 l2 sd : forall k, (k < 3)%nat ->
  (match k with | 0 => ned3d_l_z0 lat lon alt VN VE VD roll pitch heading rate_x rate_y rate_z mVN mVE mVD l0 l1 l2 sd | 1 => ned3d_l_z1 lat lon alt VN VE VD roll pitch heading rate_x rate_y rate_z mVN mVE mVD l0 l1 l2 sd | 2 => ned3d_l_z2 lat lon alt VN VE VD roll pitch heading rate_x rate_y rate_z mVN mVE mVD l0 l1 l2 sd | _ => 0%R end)%nat = vec3 VN VE VD k + mvec 3 (Cnb roll pitch heading) (cross3 (vec3 rate_x rate_y rate_z) (vec3 l0 l1 l2)) k - vec3 mVN mVE mVD k.
Proof.
  intros k Hk; idx k; autounfold with errstate_meas; autounfold with ned3d_l_db; unf_pred; ring.
Qed.

Lemma R_matches_ned3d_l_norate lat lon alt VN VE VD roll pitch heading mVN mVE mVD l0 l1 l2 sd :
  meq 3 3 (Rm_ned3d_l_norate lat lon alt VN VE VD roll pitch heading mVN mVE mVD l0 l1 l2 sd) (fun i j => if Nat.eqb i j then sd * sd else 0).
Proof.
  intros i j Hi Hj; idx i; idx j; cbv [Rm_ned3d_l_norate Nat.eqb]; autounfold with errstate_meas; autounfold with ned3d_l_norate_db; reflexivity.
Qed.

Lemma residual_form_ned3d_l_norate lat lon alt VN VE VD roll pitch heading mVN mVE mVD l0 l1 l2 sd : forall k, (k < 3)%nat ->
  (match k with | 0 => ned3d_l_norate_z0 lat lon alt VN VE VD roll pitch heading mVN mVE mVD l0 l1 l2 sd | 1 => ned3d_l_norate_z1 lat lon alt VN VE VD roll pitch heading mVN mVE mVD l0 l1 l2 sd | 2 => ned3d_l_norate_z2 lat lon alt VN VE VD roll pitch heading mVN mVE mVD l0 l1 l2 sd | _ => 0%R end)%nat = vec3 VN VE VD k - vec3 mVN mVE mVD k.
Proof.
  intros k Hk; idx k; autounfold with errstate_meas; autounfold with ned3d_l_norate_db; unf_pred; ring.
Qed.

Lemma R_matches_body3d lat lon alt VN VE VD roll pitch heading mVX mVY mVZ sd :
  meq 3 3 (Rm_body3d lat lon alt VN VE VD roll pitch heading mVX mVY mVZ sd) (fun i j => if Nat.eqb i j then sd * sd else 0).
Proof.
  intros i j Hi Hj; idx i; idx j; cbv [Rm_body3d Nat.eqb]; autounfold with errstate_meas; autounfold with body3d_db; reflexivity.
Qed.

Lemma residual_form_body3d lat lon alt VN VE VD roll pitch heading mVX mVY mVZ sd : forall k, (k < 3)%nat ->
  (match k with | 0 => body3d_z0 lat lon alt VN VE VD roll pitch heading mVX mVY mVZ sd | 1 => body3d_z1 lat lon alt VN VE VD roll pitch heading mVX mVY mVZ sd | 2 => body3d_z2 lat lon alt VN VE VD roll pitch heading mVX mVY mVZ sd | _ => 0%R end)%nat = mtvec3 (Cnb roll pitch heading) (vec3 VN VE VD) k - vec3 mVX mVY mVZ k.
Proof.
  intros k Hk; idx k; autounfold with errstate_meas; autounfold with body3d_db; unf_pred; ring.
Qed.

Lemma R_matches_body3d_rate lat lon alt VN VE VD roll pitch heading rate_x rate_y rate_z mVX mVY mVZ sd :
  meq 3 3 (Rm_body3d_rate lat lon alt VN VE VD roll pitch heading rate_x rate_y rate_z mVX mVY mVZ sd) (fun i j => if Nat.eqb i j then sd * sd else 0).
Proof.
  intros i j Hi Hj; idx i; idx j; cbv [Rm_body3d_rate Nat.eqb]; autounfold with errstate_meas; autounfold with body3d_rate_db; reflexivity.
Qed.

Lemma residual_form_body3d_rate lat lon alt VN VE VD roll pitch heading rate_x rate_y rate_z mVX mVY mVZ sd : forall k, (k < 3)%nat ->
  (match k with | 0 => body3d_rate_z0 lat lon alt VN VE VD roll pitch heading rate_x rate_y rate_z mVX mVY mVZ sd | 1 => body3d_rate_z1 lat lon alt VN VE VD roll pitch heading rate_x rate_y rate_z mVX mVY mVZ sd | 2 => body3d_rate_z2 lat lon alt VN VE VD roll pitch heading rate_x rate_y rate_z mVX mVY mVZ sd | _ => 0%R end)%nat = mtvec3 (Cnb roll pitch heading) (vec3 VN VE VD) k - vec3 mVX mVY mVZ k.
Proof.
  intros k Hk; idx k; autounfold with errstate_meas; autounfold with body3d_rate_db; unf_pred; ring.
Qed.

Lemma R_matches_pos2d lat lon alt VN VE VD roll pitch heading mlat mlon malt sd :
  meq 2 2 (Rm_pos2d lat lon alt VN VE VD roll pitch heading mlat mlon malt sd) (fun i j => if Nat.eqb i j then sd * sd else 0).
Proof.
  intros i j Hi Hj; idx i; idx j; cbv [Rm_pos2d Nat.eqb]; autounfold with errstate_meas; autounfold with pos2d_db; reflexivity.
Qed.

Lemma residual_form_pos2d lat lon alt VN VE VD roll pitch heading mlat mlon malt sd : forall k, (k < 2)%nat ->
  (match k with | 0 => pos2d_z0 lat lon alt VN VE VD roll pitch heading mlat mlon malt sd | 1 => pos2d_z1 lat lon alt VN VE VD roll pitch heading mlat mlon malt sd | _ => 0%R end)%nat = lla_diff lat lon alt mlat mlon malt k.
Proof.
  intros k Hk; idx k; autounfold with errstate_meas; autounfold with pos2d_db; unf_pred; ring.
Qed.

Lemma R_matches_pos2d_l lat lon alt VN VE VD roll pitch heading mlat mlon malt l0 l1 l2 sd :
  meq 2 2 (Rm_pos2d_l lat lon alt VN VE VD roll pitch heading mlat mlon malt l0 l1 l2 sd) (fun i j => if Nat.eqb i j then sd * sd else 0).
Proof.
  intros i j Hi Hj; idx i; idx j; cbv [Rm_pos2d_l Nat.eqb]; autounfold with errstate_meas; autounfold with pos2d_l_db; reflexivity.
Qed.

Lemma residual_form_pos2d_l lat lon alt VN VE VD roll pitch heading mlat mlon malt l0 l1 l2 sd : forall k, (k < 2)%nat ->
  (match k with | 0 => pos2d_l_z0 lat lon alt VN VE VD roll pitch heading mlat mlon malt l0 l1 l2 sd | 1 => pos2d_l_z1 lat lon alt VN VE VD roll pitch heading mlat mlon malt l0 l1 l2 sd | _ => 0%R end)%nat = lla_diff lat lon alt mlat mlon malt k + mvec 3 (Cnb roll pitch heading) (vec3 l0 l1 l2) k.
Proof.
  intros k Hk; idx k; autounfold with errstate_meas; autounfold with pos2d_l_db; unf_pred; ring.
Qed.

Lemma R_matches_ned2d lat lon alt VN VE VD roll pitch heading mVN mVE mVD sd :
  meq 2 2 (Rm_ned2d lat lon alt VN VE VD roll pitch heading mVN mVE mVD sd) (fun i j => if Nat.eqb i j then sd * sd else 0).
Proof.
  intros i j Hi Hj; idx i; idx j; cbv [Rm_ned2d Nat.eqb]; autounfold with errstate_meas; autounfold with ned2d_db; reflexivity.
Qed.

Lemma residual_form_ned2d lat lon alt VN VE VD roll pitch heading mVN mVE mVD sd : forall k, (k < 2)%nat ->
  (match k with | 0 => ned2d_z0 lat lon alt VN VE VD roll pitch heading mVN mVE mVD sd | 1 => ned2d_z1 lat lon alt VN VE VD roll pitch heading mVN mVE mVD sd | _ => 0%R end)%nat = vec3 VN VE VD k - vec3 mVN mVE mVD k.
Proof.
  intros k Hk; idx k; autounfold with errstate_meas; autounfold with ned2d_db; unf_pred; ring.
Qed.

Lemma R_matches_ned2d_rate lat lon alt VN VE VD roll pitch heading rate_x rate_y rate_z mVN mVE mVD sd :
  meq 2 2 (Rm_ned2d_rate lat lon alt VN VE VD roll pitch heading rate_x rate_y rate_z mVN mVE mVD sd) (fun i j => if Nat.eqb i j then sd * sd else 0).
Proof.
  intros i j Hi Hj; idx i; idx j; cbv [Rm_ned2d_rate Nat.eqb]; autounfold with errstate_meas; autounfold with ned2d_rate_db; reflexivity.
Qed.

Lemma residual_form_ned2d_rate lat lon alt VN VE VD roll pitch heading rate_x rate_y rate_z mVN mVE mVD sd : forall k, (k < 2)%nat ->
  (match k with | 0 => ned2d_rate_z0 lat lon alt VN VE VD roll pitch heading rate_x rate_y rate_z mVN mVE mVD sd | 1 => ned2d_rate_z1 lat lon alt VN VE VD roll pitch heading rate_x rate_y rate_z mVN mVE mVD sd | _ => 0%R end)%nat = vec3 VN VE VD k - vec3 mVN mVE mVD k.
Proof.
  intros k Hk; idx k; autounfold with errstate_meas; autounfold with ned2d_rate_db; unf_pred; ring.
Qed.

Lemma R_matches_ned2d_l lat lon alt VN VE VD roll pitch heading rate_x rate_y rate_z mVN mVE mVD l0 l1 l2 sd :
  meq 2 2 (Rm_ned2d_l lat lon alt VN VE VD roll pitch heading rate_x rate_y rate_z mVN mVE mVD l0 l1 l2 sd) (fun i j => if Nat.eqb i j then sd * sd else 0).
Proof.
  intros i j Hi Hj; idx i; idx j; cbv [Rm_ned2d_l Nat.eqb]; autounfold with errstate_meas; autounfold with ned2d_l_db; reflexivity.
Qed.

Lemma residual_form_ned2d_l lat lon alt VN VE VD roll pitch heading rate_x rate_y rate_z mVN mVE mVD l0 l1 l2 sd : forall k, (k < 2)%nat ->
  (match k with | 0 => ned2d_l_z0 lat lon alt VN VE VD roll pitch heading rate_x rate_y rate_z mVN mVE mVD l0 l1 l2 sd | 1 => ned2d_l_z1 lat lon alt VN VE VD roll pitch heading rate_x rate_y rate_z mVN mVE mVD l0 l1 l2 sd | _ => 0%R end)%nat = vec3 VN VE VD k + mvec 3 (Cnb roll pitch heading) (cross3 (vec3 rate_x rate_y rate_z) (vec3 l0 l1 l2)) k - vec3 mVN mVE mVD k.
Proof.
  intros k Hk; idx k; autounfold with errstate_meas; autounfold with ned2d_l_db; unf_pred; ring.
Qed.

Lemma R_matches_ned2d_l_norate lat lon alt VN VE VD roll pitch heading mVN mVE mVD l0 l1 l2 sd :
  meq 2 2 (Rm_ned2d_l_norate lat lon alt VN VE VD roll pitch heading mVN mVE mVD l0 l1 l2 sd) (fun i j => if Nat.eqb i j then sd * sd else 0).
Proof.
  intros i j Hi Hj; idx i; idx j; cbv [Rm_ned2d_l_norate Nat.eqb]; autounfold with errstate_meas; autounfold with ned2d_l_norate_db; reflexivity.
Qed.

Lemma residual_form_ned2d_l_norate lat lon alt VN VE VD roll pitch heading mVN mVE mVD l0 l1 l2 sd : forall k, (k < 2)%nat ->
  (match k with | 0 => ned2d_l_norate_z0 lat lon alt VN VE VD roll pitch heading mVN mVE mVD l0 l1 l2 sd | 1 => ned2d_l_norate_z1 lat lon alt VN VE VD roll pitch heading mVN mVE mVD l0 l1 l2 sd | _ => 0%R end)%nat = vec3 VN VE VD k - vec3 mVN mVE mVD k.
Proof.
  intros k Hk; idx k; autounfold with errstate_meas; autounfold with ned2d_l_norate_db; unf_pred; ring.
Qed.

Lemma R_matches_body2d lat lon alt VN VE VD roll pitch heading mVX mVY mVZ sd :
  meq 3 3 (Rm_body2d lat lon alt VN VE VD roll pitch heading mVX mVY mVZ sd) (fun i j => if Nat.eqb i j then sd * sd else 0).
Proof.
  intros i j Hi Hj; idx i; idx j; cbv [Rm_body2d Nat.eqb]; autounfold with errstate_meas; autounfold with body2d_db; reflexivity.
Qed.

Lemma residual_form_body2d lat lon alt VN VE VD roll pitch heading mVX mVY mVZ sd : forall k, (k < 3)%nat ->
  (match k with | 0 => body2d_z0 lat lon alt VN VE VD roll pitch heading mVX mVY mVZ sd | 1 => body2d_z1 lat lon alt VN VE VD roll pitch heading mVX mVY mVZ sd | 2 => body2d_z2 lat lon alt VN VE VD roll pitch heading mVX mVY mVZ sd | _ => 0%R end)%nat = mtvec3 (Cnb roll pitch heading) (vec3 VN VE VD) k - vec3 mVX mVY mVZ k.
Proof.
  intros k Hk; idx k; autounfold with errstate_meas; autounfold with body2d_db; unf_pred; ring.
Qed.

Lemma R_matches_body2d_rate lat lon alt VN VE VD roll pitch heading rate_x rate_y rate_z mVX mVY mVZ sd :
  meq 3 3 (Rm_body2d_rate lat lon alt VN VE VD roll pitch heading rate_x rate_y rate_z mVX mVY mVZ sd) (fun i j => if Nat.eqb i j then sd * sd else 0).
Proof.
  intros i j Hi Hj; idx i; idx j; cbv [Rm_body2d_rate Nat.eqb]; autounfold with errstate_meas; autounfold with body2d_rate_db; reflexivity.
Qed.

Lemma residual_form_body2d_rate lat lon alt VN VE VD roll pitch heading rate_x rate_y rate_z mVX mVY mVZ sd : forall k, (k < 3)%nat ->
  (match k with | 0 => body2d_rate_z0 lat lon alt VN VE VD roll pitch heading rate_x rate_y rate_z mVX mVY mVZ sd | 1 => body2d_rate_z1 lat lon alt VN VE VD roll pitch heading rate_x rate_y rate_z mVX mVY mVZ sd | 2 => body2d_rate_z2 lat lon alt VN VE VD roll pitch heading rate_x rate_y rate_z mVX mVY mVZ sd | _ => 0%R end)%nat = mtvec3 (Cnb roll pitch heading) (vec3 VN VE VD) k - vec3 mVX mVY mVZ k.
Proof.
  intros k Hk; idx k; autounfold with errstate_meas; autounfold with body2d_rate_db; unf_pred; ring.
Qed.

(** rates present but no lever arm / lever arm but no rates: the same model as without either *)
Lemma same_model_ned3d_rate lat lon alt VN VE VD roll pitch heading rate_x rate_y rate_z mVN mVE mVD sd :
  (forall k, (k < 3)%nat ->
     (match k with | 0 => ned3d_rate_z0 lat lon alt VN VE VD roll pitch heading rate_x rate_y rate_z mVN mVE mVD sd | 1 => ned3d_rate_z1 lat lon alt VN VE VD roll pitch heading rate_x rate_y rate_z mVN mVE mVD sd | 2 => ned3d_rate_z2 lat lon alt VN VE VD roll pitch heading rate_x rate_y rate_z mVN mVE mVD sd | _ => 0%R end)%nat =
     (match k with | 0 => ned3d_z0 lat lon alt VN VE VD roll pitch heading mVN mVE mVD sd | 1 => ned3d_z1 lat lon alt VN VE VD roll pitch heading mVN mVE mVD sd | 2 => ned3d_z2 lat lon alt VN VE VD roll pitch heading mVN mVE mVD sd | _ => 0%R end)%nat) /\
  meq 3 9 (Hm_ned3d_rate lat lon alt VN VE VD roll pitch heading rate_x rate_y rate_z mVN mVE mVD sd) (Hm_ned3d lat lon alt VN VE VD roll pitch heading mVN mVE mVD sd).
Proof.
  split; [intros k Hk; idx k | intros i j Hi Hj; idx i; idx j; cbv [Hm_ned3d_rate Hm_ned3d]];
    autounfold with errstate_meas; autounfold with ned3d_rate_db ned3d_db; ring.
Qed.

Lemma same_model_ned3d_l_norate lat lon alt VN VE VD roll pitch heading mVN mVE mVD l0 l1 l2 sd :
  (forall k, (k < 3)%nat ->
     (match k with | 0 => ned3d_l_norate_z0 lat lon alt VN VE VD roll pitch heading mVN mVE mVD l0 l1 l2 sd | 1 => ned3d_l_norate_z1 lat lon alt VN VE VD roll pitch heading mVN mVE mVD l0 l1 l2 sd | 2 => ned3d_l_norate_z2 lat lon alt VN VE VD roll pitch heading mVN mVE mVD l0 l1 l2 sd | _ => 0%R end)%nat =
     (match k with | 0 => ned3d_z0 lat lon alt VN VE VD roll pitch heading mVN mVE mVD sd | 1 => ned3d_z1 lat lon alt VN VE VD roll pitch heading mVN mVE mVD sd | 2 => ned3d_z2 lat lon alt VN VE VD roll pitch heading mVN mVE mVD sd | _ => 0%R end)%nat) /\
  meq 3 9 (Hm_ned3d_l_norate lat lon alt VN VE VD roll pitch heading mVN mVE mVD l0 l1 l2 sd) (Hm_ned3d lat lon alt VN VE VD roll pitch heading mVN mVE mVD sd).
Proof.
  split; [intros k Hk; idx k | intros i j Hi Hj; idx i; idx j; cbv [Hm_ned3d_l_norate Hm_ned3d]];
    autounfold with errstate_meas; autounfold with ned3d_l_norate_db ned3d_db; ring.
Qed.

Lemma same_model_body3d_rate lat lon alt VN VE VD roll pitch heading rate_x rate_y rate_z mVX mVY mVZ sd :
  (forall k, (k < 3)%nat ->
     (match k with | 0 => body3d_rate_z0 lat lon alt VN VE VD roll pitch heading rate_x rate_y rate_z mVX mVY mVZ sd | 1 => body3d_rate_z1 lat lon alt VN VE VD roll pitch heading rate_x rate_y rate_z mVX mVY mVZ sd | 2 => body3d_rate_z2 lat lon alt VN VE VD roll pitch heading rate_x rate_y rate_z mVX mVY mVZ sd | _ => 0%R end)%nat =
     (match k with | 0 => body3d_z0 lat lon alt VN VE VD roll pitch heading mVX mVY mVZ sd | 1 => body3d_z1 lat lon alt VN VE VD roll pitch heading mVX mVY mVZ sd | 2 => body3d_z2 lat lon alt VN VE VD roll pitch heading mVX mVY mVZ sd | _ => 0%R end)%nat) /\
  meq 3 9 (Hm_body3d_rate lat lon alt VN VE VD roll pitch heading rate_x rate_y rate_z mVX mVY mVZ sd) (Hm_body3d lat lon alt VN VE VD roll pitch heading mVX mVY mVZ sd).
Proof.
  split; [intros k Hk; idx k | intros i j Hi Hj; idx i; idx j; cbv [Hm_body3d_rate Hm_body3d]];
    autounfold with errstate_meas; autounfold with body3d_rate_db body3d_db; ring.
Qed.

Lemma same_model_ned2d_rate lat lon alt VN VE VD roll pitch heading rate_x rate_y rate_z mVN mVE mVD sd :
  (forall k, (k < 2)%nat ->
     (match k with | 0 => ned2d_rate_z0 lat lon alt VN VE VD roll pitch heading rate_x rate_y rate_z mVN mVE mVD sd | 1 => ned2d_rate_z1 lat lon alt VN VE VD roll pitch heading rate_x rate_y rate_z mVN mVE mVD sd | _ => 0%R end)%nat =
     (match k with | 0 => ned2d_z0 lat lon alt VN VE VD roll pitch heading mVN mVE mVD sd | 1 => ned2d_z1 lat lon alt VN VE VD roll pitch heading mVN mVE mVD sd | _ => 0%R end)%nat) /\
  meq 2 7 (Hm_ned2d_rate lat lon alt VN VE VD roll pitch heading rate_x rate_y rate_z mVN mVE mVD sd) (Hm_ned2d lat lon alt VN VE VD roll pitch heading mVN mVE mVD sd).
Proof.
  split; [intros k Hk; idx k | intros i j Hi Hj; idx i; idx j; cbv [Hm_ned2d_rate Hm_ned2d]];
    autounfold with errstate_meas; autounfold with ned2d_rate_db ned2d_db; ring.
Qed.

Lemma same_model_ned2d_l_norate lat lon alt VN VE VD roll pitch heading mVN mVE mVD l0 l1 l2 sd :
  (forall k, (k < 2)%nat ->
     (match k with | 0 => ned2d_l_norate_z0 lat lon alt VN VE VD roll pitch heading mVN mVE mVD l0 l1 l2 sd | 1 => ned2d_l_norate_z1 lat lon alt VN VE VD roll pitch heading mVN mVE mVD l0 l1 l2 sd | _ => 0%R end)%nat =
     (match k with | 0 => ned2d_z0 lat lon alt VN VE VD roll pitch heading mVN mVE mVD sd | 1 => ned2d_z1 lat lon alt VN VE VD roll pitch heading mVN mVE mVD sd | _ => 0%R end)%nat) /\
  meq 2 7 (Hm_ned2d_l_norate lat lon alt VN VE VD roll pitch heading mVN mVE mVD l0 l1 l2 sd) (Hm_ned2d lat lon alt VN VE VD roll pitch heading mVN mVE mVD sd).
Proof.
  split; [intros k Hk; idx k | intros i j Hi Hj; idx i; idx j; cbv [Hm_ned2d_l_norate Hm_ned2d]];
    autounfold with errstate_meas; autounfold with ned2d_l_norate_db ned2d_db; ring.
Qed.

Lemma same_model_body2d_rate lat lon alt VN VE VD roll pitch heading rate_x rate_y rate_z mVX mVY mVZ sd :
  (forall k, (k < 3)%nat ->
     (match k with | 0 => body2d_rate_z0 lat lon alt VN VE VD roll pitch heading rate_x rate_y rate_z mVX mVY mVZ sd | 1 => body2d_rate_z1 lat lon alt VN VE VD roll pitch heading rate_x rate_y rate_z mVX mVY mVZ sd | 2 => body2d_rate_z2 lat lon alt VN VE VD roll pitch heading rate_x rate_y rate_z mVX mVY mVZ sd | _ => 0%R end)%nat =
     (match k with | 0 => body2d_z0 lat lon alt VN VE VD roll pitch heading mVX mVY mVZ sd | 1 => body2d_z1 lat lon alt VN VE VD roll pitch heading mVX mVY mVZ sd | 2 => body2d_z2 lat lon alt VN VE VD roll pitch heading mVX mVY mVZ sd | _ => 0%R end)%nat) /\
  meq 3 7 (Hm_body2d_rate lat lon alt VN VE VD roll pitch heading rate_x rate_y rate_z mVX mVY mVZ sd) (Hm_body2d lat lon alt VN VE VD roll pitch heading mVX mVY mVZ sd).
Proof.
  split; [intros k Hk; idx k | intros i j Hi Hj; idx i; idx j; cbv [Hm_body2d_rate Hm_body2d]];
    autounfold with errstate_meas; autounfold with body2d_rate_db body2d_db; ring.
Qed.


Section Pos3D.
Variables lat lon alt VN VE VD roll pitch heading : R.
Variables x0 x1 x2 x3 x4 x5 x6 x7 x8 : R.
Variables l0 l1 l2 sd : R.
Hypothesis Hlat : -90 < lat < 90.
Hypothesis Halt : -1000000 <= alt.
Hypothesis Hroll : -180 < roll < 180.
Hypothesis Hpitch : -90 < pitch < 90.
Hypothesis Hheading : -180 < heading < 180.

Ltac corr_facts :=
  pose proof (corr3_roll lat lon alt VN VE VD roll pitch heading x0 x1 x2 x3 x4 x5 x6 x7 x8 Hroll Hpitch) as Froll;
  pose proof (corr3_pitch lat lon alt VN VE VD roll pitch heading x0 x1 x2 x3 x4 x5 x6 x7 x8 Hpitch) as Fpitch;
  pose proof (corr3_heading lat lon alt VN VE VD roll pitch heading x0 x1 x2 x3 x4 x5 x6 x7 x8 Hpitch Hheading) as Fheading;
  destruct (corr3_at0 lat lon alt VN VE VD roll pitch heading x0 x1 x2 x3 x4 x5 x6 x7 x8 Hroll Hpitch Hheading)
    as [Vlat [Vlon [Valt [VVN [VVE [VVD [Vroll [Vpitch Vheading]]]]]]]];
  cbv beta in *;
  pose proof (cos_d2r_pos pitch Hpitch) as Hcp; pose proof PI_neq0 as Hpi;
  assert (Halt' : -6000000 < alt) by lra.

(* the lever-arm part C_nb(rph') l of the residual: differentiate through the corrected attitude *)
Ltac lever_part :=
  cbv [mvec sumN Cnb vec3];
  unfold mat_from_rph_m00, mat_from_rph_m01, mat_from_rph_m02, mat_from_rph_m10, mat_from_rph_m11,
    mat_from_rph_m12, mat_from_rph_m20, mat_from_rph_m21, mat_from_rph_m22;
  repeat autounfold with mat_from_rph_db;
  auto_derive; [splits; try exact I; eexists; eassumption | reflexivity].

Lemma H_is_jacobian_pos3d_0 :
  is_derive (Zc_pos3d lat lon alt VN VE VD roll pitch heading lat lon alt sd x0 x1 x2 x3 x4 x5 x6 x7 x8 0) 0
    (- mvec 9 (Hm_pos3d lat lon alt VN VE VD roll pitch heading lat lon alt sd) (vec9 x0 x1 x2 x3 x4 x5 x6 x7 x8) 0).
Proof.
  corr_facts. cbv [Zc_pos3d on_corrected3d]. unfold along3 at 1 2 3.
  apply (is_derive_ext (fun e => e * (- x0 * KN lat alt * QN (1 / 2 * (lat - e * x0 * KN lat alt + lat)) (1 / 2 * (alt + e * x2 + alt))))).
  { intro e. rewrite (residual_form_pos3d _ _ _ _ _ _ _ _ _ lat lon alt sd 0%nat ltac:(lia)); cbv [lla_diff]; rewrite lla_diff0_eq, correct3d_lat_eq, correct3d_alt_eq by assumption. eqR. ring. }
  evar_last.
  - apply is_derive_north; try exact Halt'; affine_side.
  - cbv beta.
    try derive_val Froll; try derive_val Fpitch; try derive_val Fheading; rewrite ?Vroll, ?Vpitch, ?Vheading;
    cbv [mvec sumN Tout3 Hm_pos3d vec9];
    autounfold with errstate_mat errstate_meas; autounfold with to_output3d_db pos3d_db;
    trig_abbrev roll pitch heading;
    first [ ring [Hr Hp Hh] | field_simplify_eq; [ring [Hr Hp Hh] | splits; try assumption; lra] ].
Qed.

Lemma H_is_jacobian_pos3d_1 :
  is_derive (Zc_pos3d lat lon alt VN VE VD roll pitch heading lat lon alt sd x0 x1 x2 x3 x4 x5 x6 x7 x8 1) 0
    (- mvec 9 (Hm_pos3d lat lon alt VN VE VD roll pitch heading lat lon alt sd) (vec9 x0 x1 x2 x3 x4 x5 x6 x7 x8) 1).
Proof.
  corr_facts. cbv [Zc_pos3d on_corrected3d]. unfold along3 at 1 2 3.
  apply (is_derive_ext (fun e => e * (- x1 * KE lat alt * QE (1 / 2 * (lat - e * x0 * KN lat alt + lat)) (1 / 2 * (alt + e * x2 + alt))))).
  { intro e. rewrite (residual_form_pos3d _ _ _ _ _ _ _ _ _ lat lon alt sd 1%nat ltac:(lia)); cbv [lla_diff]; rewrite lla_diff1_eq, correct3d_lat_eq, correct3d_lon_eq, correct3d_alt_eq by assumption. eqR. ring. }
  evar_last.
  - apply is_derive_east; try exact Halt'; try exact Hlat; affine_side.
  - cbv beta.
    try derive_val Froll; try derive_val Fpitch; try derive_val Fheading; rewrite ?Vroll, ?Vpitch, ?Vheading;
    cbv [mvec sumN Tout3 Hm_pos3d vec9];
    autounfold with errstate_mat errstate_meas; autounfold with to_output3d_db pos3d_db;
    trig_abbrev roll pitch heading;
    first [ ring [Hr Hp Hh] | field_simplify_eq; [ring [Hr Hp Hh] | splits; try assumption; lra] ].
Qed.

Lemma H_is_jacobian_pos3d_2 :
  is_derive (Zc_pos3d lat lon alt VN VE VD roll pitch heading lat lon alt sd x0 x1 x2 x3 x4 x5 x6 x7 x8 2) 0
    (- mvec 9 (Hm_pos3d lat lon alt VN VE VD roll pitch heading lat lon alt sd) (vec9 x0 x1 x2 x3 x4 x5 x6 x7 x8) 2).
Proof.
  corr_facts. cbv [Zc_pos3d on_corrected3d]. unfold along3 at 1 2 3.
  apply (is_derive_ext (fun e => alt - (alt + e * x2))).
  { intro e. rewrite (residual_form_pos3d _ _ _ _ _ _ _ _ _ lat lon alt sd 2%nat ltac:(lia)); cbv [lla_diff]; rewrite lla_diff2_eq, correct3d_alt_eq by assumption. eqR. ring. }
  evar_last.
  - auto_derive; [exact I | reflexivity].
  - cbv beta.
    try derive_val Froll; try derive_val Fpitch; try derive_val Fheading; rewrite ?Vroll, ?Vpitch, ?Vheading;
    cbv [mvec sumN Tout3 Hm_pos3d vec9];
    autounfold with errstate_mat errstate_meas; autounfold with to_output3d_db pos3d_db;
    trig_abbrev roll pitch heading;
    first [ ring [Hr Hp Hh] | field_simplify_eq; [ring [Hr Hp Hh] | splits; try assumption; lra] ].
Qed.

Lemma H_is_jacobian_pos3d_l_0 :
  is_derive (Zc_pos3d_l lat lon alt VN VE VD roll pitch heading lat lon alt l0 l1 l2 sd x0 x1 x2 x3 x4 x5 x6 x7 x8 0) 0
    (- mvec 9 (Hm_pos3d_l lat lon alt VN VE VD roll pitch heading lat lon alt l0 l1 l2 sd) (vec9 x0 x1 x2 x3 x4 x5 x6 x7 x8) 0).
Proof.
  corr_facts. cbv [Zc_pos3d_l on_corrected3d]. unfold along3 at 1 2 3.
  apply (is_derive_ext (fun e => e * (- x0 * KN lat alt * QN (1 / 2 * (lat - e * x0 * KN lat alt + lat)) (1 / 2 * (alt + e * x2 + alt))) + mvec 3 (Cnb (along3 correct3d_roll lat lon alt VN VE VD roll pitch heading x0 x1 x2 x3 x4 x5 x6 x7 x8 e) (along3 correct3d_pitch lat lon alt VN VE VD roll pitch heading x0 x1 x2 x3 x4 x5 x6 x7 x8 e) (along3 correct3d_heading lat lon alt VN VE VD roll pitch heading x0 x1 x2 x3 x4 x5 x6 x7 x8 e)) (vec3 l0 l1 l2) 0)).
  { intro e. rewrite (residual_form_pos3d_l _ _ _ _ _ _ _ _ _ lat lon alt l0 l1 l2 sd 0%nat ltac:(lia)); cbv [lla_diff]; rewrite lla_diff0_eq, correct3d_lat_eq, correct3d_alt_eq by assumption. eqR. ring. }
  evar_last.
  - apply (is_derive_plus (V := R_NormedModule)); [apply is_derive_north; try exact Halt'; affine_side | lever_part].
  - cbv beta. unfold plus; simpl.
    try derive_val Froll; try derive_val Fpitch; try derive_val Fheading; rewrite ?Vroll, ?Vpitch, ?Vheading;
    cbv [mvec sumN Tout3 Hm_pos3d_l vec9];
    autounfold with errstate_mat errstate_meas; autounfold with to_output3d_db pos3d_l_db;
    trig_abbrev roll pitch heading;
    first [ ring [Hr Hp Hh] | field_simplify_eq; [ring [Hr Hp Hh] | splits; try assumption; lra] ].
Qed.

Lemma H_is_jacobian_pos3d_l_1 :
  is_derive (Zc_pos3d_l lat lon alt VN VE VD roll pitch heading lat lon alt l0 l1 l2 sd x0 x1 x2 x3 x4 x5 x6 x7 x8 1) 0
    (- mvec 9 (Hm_pos3d_l lat lon alt VN VE VD roll pitch heading lat lon alt l0 l1 l2 sd) (vec9 x0 x1 x2 x3 x4 x5 x6 x7 x8) 1).
Proof.
  corr_facts. cbv [Zc_pos3d_l on_corrected3d]. unfold along3 at 1 2 3.
  apply (is_derive_ext (fun e => e * (- x1 * KE lat alt * QE (1 / 2 * (lat - e * x0 * KN lat alt + lat)) (1 / 2 * (alt + e * x2 + alt))) + mvec 3 (Cnb (along3 correct3d_roll lat lon alt VN VE VD roll pitch heading x0 x1 x2 x3 x4 x5 x6 x7 x8 e) (along3 correct3d_pitch lat lon alt VN VE VD roll pitch heading x0 x1 x2 x3 x4 x5 x6 x7 x8 e) (along3 correct3d_heading lat lon alt VN VE VD roll pitch heading x0 x1 x2 x3 x4 x5 x6 x7 x8 e)) (vec3 l0 l1 l2) 1)).
  { intro e. rewrite (residual_form_pos3d_l _ _ _ _ _ _ _ _ _ lat lon alt l0 l1 l2 sd 1%nat ltac:(lia)); cbv [lla_diff]; rewrite lla_diff1_eq, correct3d_lat_eq, correct3d_lon_eq, correct3d_alt_eq by assumption. eqR. ring. }
  evar_last.
  - apply (is_derive_plus (V := R_NormedModule)); [apply is_derive_east; try exact Halt'; try exact Hlat; affine_side | lever_part].
  - cbv beta. unfold plus; simpl.
    try derive_val Froll; try derive_val Fpitch; try derive_val Fheading; rewrite ?Vroll, ?Vpitch, ?Vheading;
    cbv [mvec sumN Tout3 Hm_pos3d_l vec9];
    autounfold with errstate_mat errstate_meas; autounfold with to_output3d_db pos3d_l_db;
    trig_abbrev roll pitch heading;
    first [ ring [Hr Hp Hh] | field_simplify_eq; [ring [Hr Hp Hh] | splits; try assumption; lra] ].
Qed.

Lemma H_is_jacobian_pos3d_l_2 :
  is_derive (Zc_pos3d_l lat lon alt VN VE VD roll pitch heading lat lon alt l0 l1 l2 sd x0 x1 x2 x3 x4 x5 x6 x7 x8 2) 0
    (- mvec 9 (Hm_pos3d_l lat lon alt VN VE VD roll pitch heading lat lon alt l0 l1 l2 sd) (vec9 x0 x1 x2 x3 x4 x5 x6 x7 x8) 2).
Proof.
  corr_facts. cbv [Zc_pos3d_l on_corrected3d]. unfold along3 at 1 2 3.
  apply (is_derive_ext (fun e => alt - (alt + e * x2) + mvec 3 (Cnb (along3 correct3d_roll lat lon alt VN VE VD roll pitch heading x0 x1 x2 x3 x4 x5 x6 x7 x8 e) (along3 correct3d_pitch lat lon alt VN VE VD roll pitch heading x0 x1 x2 x3 x4 x5 x6 x7 x8 e) (along3 correct3d_heading lat lon alt VN VE VD roll pitch heading x0 x1 x2 x3 x4 x5 x6 x7 x8 e)) (vec3 l0 l1 l2) 2)).
  { intro e. rewrite (residual_form_pos3d_l _ _ _ _ _ _ _ _ _ lat lon alt l0 l1 l2 sd 2%nat ltac:(lia)); cbv [lla_diff]; rewrite lla_diff2_eq, correct3d_alt_eq by assumption. eqR. ring. }
  evar_last.
  - apply (is_derive_plus (V := R_NormedModule)); [auto_derive; [exact I | reflexivity] | lever_part].
  - cbv beta. unfold plus; simpl.
    try derive_val Froll; try derive_val Fpitch; try derive_val Fheading; rewrite ?Vroll, ?Vpitch, ?Vheading;
    cbv [mvec sumN Tout3 Hm_pos3d_l vec9];
    autounfold with errstate_mat errstate_meas; autounfold with to_output3d_db pos3d_l_db;
    trig_abbrev roll pitch heading;
    first [ ring [Hr Hp Hh] | field_simplify_eq; [ring [Hr Hp Hh] | splits; try assumption; lra] ].
Qed.

End Pos3D.

Section Pos2D.
Variables lat lon alt VN VE VD roll pitch heading : R.
Variables x0 x1 x2 x3 x4 x5 x6 : R.
Variables l0 l1 l2 sd : R.
Hypothesis Hlat : -90 < lat < 90.
Hypothesis Halt : -1000000 <= alt.
Hypothesis Hroll : -180 < roll < 180.
Hypothesis Hpitch : -90 < pitch < 90.
Hypothesis Hheading : -180 < heading < 180.

Ltac corr_facts :=
  pose proof (corr2_roll lat lon alt VN VE VD roll pitch heading x0 x1 x2 x3 x4 x5 x6 Hroll Hpitch) as Froll;
  pose proof (corr2_pitch lat lon alt VN VE VD roll pitch heading x0 x1 x2 x3 x4 x5 x6 Hpitch) as Fpitch;
  pose proof (corr2_heading lat lon alt VN VE VD roll pitch heading x0 x1 x2 x3 x4 x5 x6 Hpitch Hheading) as Fheading;
  destruct (corr2_at0 lat lon alt VN VE VD roll pitch heading x0 x1 x2 x3 x4 x5 x6 Hroll Hpitch Hheading)
    as [Vlat [Vlon [Valt [VVN [VVE [VVD [Vroll [Vpitch Vheading]]]]]]]];
  cbv beta in *;
  pose proof (cos_d2r_pos pitch Hpitch) as Hcp; pose proof PI_neq0 as Hpi;
  assert (Halt' : -6000000 < alt) by lra.

(* the lever-arm part C_nb(rph') l of the residual: differentiate through the corrected attitude *)
Ltac lever_part :=
  cbv [mvec sumN Cnb vec3];
  unfold mat_from_rph_m00, mat_from_rph_m01, mat_from_rph_m02, mat_from_rph_m10, mat_from_rph_m11,
    mat_from_rph_m12, mat_from_rph_m20, mat_from_rph_m21, mat_from_rph_m22;
  repeat autounfold with mat_from_rph_db;
  auto_derive; [splits; try exact I; eexists; eassumption | reflexivity].

Lemma H_is_jacobian_pos2d_0 :
  is_derive (Zc_pos2d lat lon alt VN VE VD roll pitch heading lat lon alt sd x0 x1 x2 x3 x4 x5 x6 0) 0
    (- mvec 7 (Hm_pos2d lat lon alt VN VE VD roll pitch heading lat lon alt sd) (vec7 x0 x1 x2 x3 x4 x5 x6) 0).
Proof.
  corr_facts. cbv [Zc_pos2d on_corrected2d]. unfold along2 at 1 2 3.
  apply (is_derive_ext (fun e => e * (- x0 * KN lat alt * QN (1 / 2 * (lat - e * x0 * KN lat alt + lat)) (1 / 2 * (alt + alt))))).
  { intro e. rewrite (residual_form_pos2d _ _ _ _ _ _ _ _ _ lat lon alt sd 0%nat ltac:(lia)); cbv [lla_diff]; rewrite lla_diff0_eq, correct2d_lat_eq, correct2d_alt_eq by assumption. eqR. ring. }
  evar_last.
  - apply is_derive_north; try exact Halt'; affine_side.
  - cbv beta.
    try derive_val Froll; try derive_val Fpitch; try derive_val Fheading; rewrite ?Vroll, ?Vpitch, ?Vheading;
    cbv [mvec sumN Tout2 Hm_pos2d vec7];
    autounfold with errstate_mat errstate_meas; autounfold with to_output2d_db pos2d_db;
    trig_abbrev roll pitch heading;
    first [ ring [Hr Hp Hh] | field_simplify_eq; [ring [Hr Hp Hh] | splits; try assumption; lra] ].
Qed.

Lemma H_is_jacobian_pos2d_1 :
  is_derive (Zc_pos2d lat lon alt VN VE VD roll pitch heading lat lon alt sd x0 x1 x2 x3 x4 x5 x6 1) 0
    (- mvec 7 (Hm_pos2d lat lon alt VN VE VD roll pitch heading lat lon alt sd) (vec7 x0 x1 x2 x3 x4 x5 x6) 1).
Proof.
  corr_facts. cbv [Zc_pos2d on_corrected2d]. unfold along2 at 1 2 3.
  apply (is_derive_ext (fun e => e * (- x1 * KE lat alt * QE (1 / 2 * (lat - e * x0 * KN lat alt + lat)) (1 / 2 * (alt + alt))))).
  { intro e. rewrite (residual_form_pos2d _ _ _ _ _ _ _ _ _ lat lon alt sd 1%nat ltac:(lia)); cbv [lla_diff]; rewrite lla_diff1_eq, correct2d_lat_eq, correct2d_lon_eq, correct2d_alt_eq by assumption. eqR. ring. }
  evar_last.
  - apply is_derive_east; try exact Halt'; try exact Hlat; affine_side.
  - cbv beta.
    try derive_val Froll; try derive_val Fpitch; try derive_val Fheading; rewrite ?Vroll, ?Vpitch, ?Vheading;
    cbv [mvec sumN Tout2 Hm_pos2d vec7];
    autounfold with errstate_mat errstate_meas; autounfold with to_output2d_db pos2d_db;
    trig_abbrev roll pitch heading;
    first [ ring [Hr Hp Hh] | field_simplify_eq; [ring [Hr Hp Hh] | splits; try assumption; lra] ].
Qed.

Lemma H_is_jacobian_pos2d_l_0 :
  is_derive (Zc_pos2d_l lat lon alt VN VE VD roll pitch heading lat lon alt l0 l1 l2 sd x0 x1 x2 x3 x4 x5 x6 0) 0
    (- mvec 7 (Hm_pos2d_l lat lon alt VN VE VD roll pitch heading lat lon alt l0 l1 l2 sd) (vec7 x0 x1 x2 x3 x4 x5 x6) 0).
Proof.
  corr_facts. cbv [Zc_pos2d_l on_corrected2d]. unfold along2 at 1 2 3.
  apply (is_derive_ext (fun e => e * (- x0 * KN lat alt * QN (1 / 2 * (lat - e * x0 * KN lat alt + lat)) (1 / 2 * (alt + alt))) + mvec 3 (Cnb (along2 correct2d_roll lat lon alt VN VE VD roll pitch heading x0 x1 x2 x3 x4 x5 x6 e) (along2 correct2d_pitch lat lon alt VN VE VD roll pitch heading x0 x1 x2 x3 x4 x5 x6 e) (along2 correct2d_heading lat lon alt VN VE VD roll pitch heading x0 x1 x2 x3 x4 x5 x6 e)) (vec3 l0 l1 l2) 0)).
  { intro e. rewrite (residual_form_pos2d_l _ _ _ _ _ _ _ _ _ lat lon alt l0 l1 l2 sd 0%nat ltac:(lia)); cbv [lla_diff]; rewrite lla_diff0_eq, correct2d_lat_eq, correct2d_alt_eq by assumption. eqR. ring. }
  evar_last.
  - apply (is_derive_plus (V := R_NormedModule)); [apply is_derive_north; try exact Halt'; affine_side | lever_part].
  - cbv beta. unfold plus; simpl.
    try derive_val Froll; try derive_val Fpitch; try derive_val Fheading; rewrite ?Vroll, ?Vpitch, ?Vheading;
    cbv [mvec sumN Tout2 Hm_pos2d_l vec7];
    autounfold with errstate_mat errstate_meas; autounfold with to_output2d_db pos2d_l_db;
    trig_abbrev roll pitch heading;
    first [ ring [Hr Hp Hh] | field_simplify_eq; [ring [Hr Hp Hh] | splits; try assumption; lra] ].
Qed.

Lemma H_is_jacobian_pos2d_l_1 :
  is_derive (Zc_pos2d_l lat lon alt VN VE VD roll pitch heading lat lon alt l0 l1 l2 sd x0 x1 x2 x3 x4 x5 x6 1) 0
    (- mvec 7 (Hm_pos2d_l lat lon alt VN VE VD roll pitch heading lat lon alt l0 l1 l2 sd) (vec7 x0 x1 x2 x3 x4 x5 x6) 1).
Proof.
  corr_facts. cbv [Zc_pos2d_l on_corrected2d]. unfold along2 at 1 2 3.
  apply (is_derive_ext (fun e => e * (- x1 * KE lat alt * QE (1 / 2 * (lat - e * x0 * KN lat alt + lat)) (1 / 2 * (alt + alt))) + mvec 3 (Cnb (along2 correct2d_roll lat lon alt VN VE VD roll pitch heading x0 x1 x2 x3 x4 x5 x6 e) (along2 correct2d_pitch lat lon alt VN VE VD roll pitch heading x0 x1 x2 x3 x4 x5 x6 e) (along2 correct2d_heading lat lon alt VN VE VD roll pitch heading x0 x1 x2 x3 x4 x5 x6 e)) (vec3 l0 l1 l2) 1)).
  { intro e. rewrite (residual_form_pos2d_l _ _ _ _ _ _ _ _ _ lat lon alt l0 l1 l2 sd 1%nat ltac:(lia)); cbv [lla_diff]; rewrite lla_diff1_eq, correct2d_lat_eq, correct2d_lon_eq, correct2d_alt_eq by assumption. eqR. ring. }
  evar_last.
  - apply (is_derive_plus (V := R_NormedModule)); [apply is_derive_east; try exact Halt'; try exact Hlat; affine_side | lever_part].
  - cbv beta. unfold plus; simpl.
    try derive_val Froll; try derive_val Fpitch; try derive_val Fheading; rewrite ?Vroll, ?Vpitch, ?Vheading;
    cbv [mvec sumN Tout2 Hm_pos2d_l vec7];
    autounfold with errstate_mat errstate_meas; autounfold with to_output2d_db pos2d_l_db;
    trig_abbrev roll pitch heading;
    first [ ring [Hr Hp Hh] | field_simplify_eq; [ring [Hr Hp Hh] | splits; try assumption; lra] ].
Qed.

End Pos2D.


(** position class: all components of one configuration together *)
Lemma H_is_jacobian_pos3d lat lon alt VN VE VD roll pitch heading x0 x1 x2 x3 x4 x5 x6 x7 x8 sd :
  -90 < lat < 90 -> -1000000 <= alt -> -180 < roll < 180 -> -90 < pitch < 90 -> -180 < heading < 180 ->
  forall k, (k < 3)%nat ->
  is_derive (Zc_pos3d lat lon alt VN VE VD roll pitch heading lat lon alt sd x0 x1 x2 x3 x4 x5 x6 x7 x8 k) 0
    (- mvec 9 (Hm_pos3d lat lon alt VN VE VD roll pitch heading lat lon alt sd) (vec9 x0 x1 x2 x3 x4 x5 x6 x7 x8) k).
Proof.
  intros Hlat Halt Hroll Hpitch Hheading k Hk. idx k.
  - eapply H_is_jacobian_pos3d_0; eassumption.
  - eapply H_is_jacobian_pos3d_1; eassumption.
  - eapply H_is_jacobian_pos3d_2; eassumption.
Qed.

Lemma H_is_jacobian_pos3d_l lat lon alt VN VE VD roll pitch heading x0 x1 x2 x3 x4 x5 x6 x7 x8 l0 l1 l2 sd :
  -90 < lat < 90 -> -1000000 <= alt -> -180 < roll < 180 -> -90 < pitch < 90 -> -180 < heading < 180 ->
  forall k, (k < 3)%nat ->
  is_derive (Zc_pos3d_l lat lon alt VN VE VD roll pitch heading lat lon alt l0 l1 l2 sd x0 x1 x2 x3 x4 x5 x6 x7 x8 k) 0
    (- mvec 9 (Hm_pos3d_l lat lon alt VN VE VD roll pitch heading lat lon alt l0 l1 l2 sd) (vec9 x0 x1 x2 x3 x4 x5 x6 x7 x8) k).
Proof.
  intros Hlat Halt Hroll Hpitch Hheading k Hk. idx k.
  - eapply H_is_jacobian_pos3d_l_0; eassumption.
  - eapply H_is_jacobian_pos3d_l_1; eassumption.
  - eapply H_is_jacobian_pos3d_l_2; eassumption.
Qed.

Lemma H_is_jacobian_pos2d lat lon alt VN VE VD roll pitch heading x0 x1 x2 x3 x4 x5 x6 sd :
  -90 < lat < 90 -> -1000000 <= alt -> -180 < roll < 180 -> -90 < pitch < 90 -> -180 < heading < 180 ->
  forall k, (k < 2)%nat ->
  is_derive (Zc_pos2d lat lon alt VN VE VD roll pitch heading lat lon alt sd x0 x1 x2 x3 x4 x5 x6 k) 0
    (- mvec 7 (Hm_pos2d lat lon alt VN VE VD roll pitch heading lat lon alt sd) (vec7 x0 x1 x2 x3 x4 x5 x6) k).
Proof.
  intros Hlat Halt Hroll Hpitch Hheading k Hk. idx k.
  - eapply H_is_jacobian_pos2d_0; eassumption.
  - eapply H_is_jacobian_pos2d_1; eassumption.
Qed.

Lemma H_is_jacobian_pos2d_l lat lon alt VN VE VD roll pitch heading x0 x1 x2 x3 x4 x5 x6 l0 l1 l2 sd :
  -90 < lat < 90 -> -1000000 <= alt -> -180 < roll < 180 -> -90 < pitch < 90 -> -180 < heading < 180 ->
  forall k, (k < 2)%nat ->
  is_derive (Zc_pos2d_l lat lon alt VN VE VD roll pitch heading lat lon alt l0 l1 l2 sd x0 x1 x2 x3 x4 x5 x6 k) 0
    (- mvec 7 (Hm_pos2d_l lat lon alt VN VE VD roll pitch heading lat lon alt l0 l1 l2 sd) (vec7 x0 x1 x2 x3 x4 x5 x6) k).
Proof.
  intros Hlat Halt Hroll Hpitch Hheading k Hk. idx k.
  - eapply H_is_jacobian_pos2d_l_0; eassumption.
  - eapply H_is_jacobian_pos2d_l_1; eassumption.
Qed.


(** * Part E: perturb_pva followed by correct_pva restores the state to first order (C05 c)

    The output-space error is written E = T_out(pva) y for an arbitrary internal vector y (for cos pitch <> 0
    this is every E, with y = T_inv E, by [to_output_invertible]); the state is perturbed by e E and corrected
    with e y.  T_out is evaluated at the unperturbed state. *)

(** component [f] of sim.perturb_pva(pva, e * E), E = T_out(pva) y *)
Definition pert3 (f : R -> R -> R -> R -> R -> R -> R -> R -> R -> R -> R -> R -> R -> R -> R -> R -> R -> R -> R)
  (lat lon alt VN VE VD roll pitch heading y0 y1 y2 y3 y4 y5 y6 y7 y8 e : R) : R :=
  let E := mvec 9 (Tout3 lat lon alt VN VE VD roll pitch heading) (vec9 y0 y1 y2 y3 y4 y5 y6 y7 y8) in
  f lat lon alt VN VE VD roll pitch heading (e * E 0%nat) (e * E 1%nat) (e * E 2%nat) (e * E 3%nat)
    (e * E 4%nat) (e * E 5%nat) (e * E 6%nat) (e * E 7%nat) (e * E 8%nat).

(** component [c] of correct_pva(perturb_pva(pva, e T y), e y) *)
Definition pert_corr3 (c : R -> R -> R -> R -> R -> R -> R -> R -> R -> R -> R -> R -> R -> R -> R -> R -> R -> R -> R)
  (lat lon alt VN VE VD roll pitch heading y0 y1 y2 y3 y4 y5 y6 y7 y8 e : R) : R :=
  c (pert3 perturb_pva_lat lat lon alt VN VE VD roll pitch heading y0 y1 y2 y3 y4 y5 y6 y7 y8 e)
    (pert3 perturb_pva_lon lat lon alt VN VE VD roll pitch heading y0 y1 y2 y3 y4 y5 y6 y7 y8 e)
    (pert3 perturb_pva_alt lat lon alt VN VE VD roll pitch heading y0 y1 y2 y3 y4 y5 y6 y7 y8 e)
    (pert3 perturb_pva_VN lat lon alt VN VE VD roll pitch heading y0 y1 y2 y3 y4 y5 y6 y7 y8 e)
    (pert3 perturb_pva_VE lat lon alt VN VE VD roll pitch heading y0 y1 y2 y3 y4 y5 y6 y7 y8 e)
    (pert3 perturb_pva_VD lat lon alt VN VE VD roll pitch heading y0 y1 y2 y3 y4 y5 y6 y7 y8 e)
    (pert3 perturb_pva_roll lat lon alt VN VE VD roll pitch heading y0 y1 y2 y3 y4 y5 y6 y7 y8 e)
    (pert3 perturb_pva_pitch lat lon alt VN VE VD roll pitch heading y0 y1 y2 y3 y4 y5 y6 y7 y8 e)
    (pert3 perturb_pva_heading lat lon alt VN VE VD roll pitch heading y0 y1 y2 y3 y4 y5 y6 y7 y8 e)
    (e * y0) (e * y1) (e * y2) (e * y3) (e * y4) (e * y5) (e * y6) (e * y7) (e * y8).

(** component [d] of compute_state_difference(correct_pva(perturb_pva(pva, e T y), e y), pva) *)
Definition restore3
  (d : R -> R -> R -> R -> R -> R -> R -> R -> R -> R -> R -> R -> R -> R -> R -> R -> R -> R -> R)
  (lat lon alt VN VE VD roll pitch heading y0 y1 y2 y3 y4 y5 y6 y7 y8 e : R) : R :=
  d (pert_corr3 correct3d_lat lat lon alt VN VE VD roll pitch heading y0 y1 y2 y3 y4 y5 y6 y7 y8 e)
    (pert_corr3 correct3d_lon lat lon alt VN VE VD roll pitch heading y0 y1 y2 y3 y4 y5 y6 y7 y8 e)
    (pert_corr3 correct3d_alt lat lon alt VN VE VD roll pitch heading y0 y1 y2 y3 y4 y5 y6 y7 y8 e)
    (pert_corr3 correct3d_VN lat lon alt VN VE VD roll pitch heading y0 y1 y2 y3 y4 y5 y6 y7 y8 e)
    (pert_corr3 correct3d_VE lat lon alt VN VE VD roll pitch heading y0 y1 y2 y3 y4 y5 y6 y7 y8 e)
    (pert_corr3 correct3d_VD lat lon alt VN VE VD roll pitch heading y0 y1 y2 y3 y4 y5 y6 y7 y8 e)
    (pert_corr3 correct3d_roll lat lon alt VN VE VD roll pitch heading y0 y1 y2 y3 y4 y5 y6 y7 y8 e)
    (pert_corr3 correct3d_pitch lat lon alt VN VE VD roll pitch heading y0 y1 y2 y3 y4 y5 y6 y7 y8 e)
    (pert_corr3 correct3d_heading lat lon alt VN VE VD roll pitch heading y0 y1 y2 y3 y4 y5 y6 y7 y8 e)
    lat lon alt VN VE VD roll pitch heading.

Lemma is_derive_minus_const (f : R -> R) c t l :
  is_derive f t l -> is_derive (fun e => f e - c) t l.
Proof.
  intro H. auto_derive; [exists l; exact H|]. derive_val H. ring.
Qed.

Section Restore3D.
Variables lat lon alt VN VE VD roll pitch heading : R.
Variables y0 y1 y2 y3 y4 y5 y6 y7 y8 : R.
Hypothesis Hlat : -90 < lat < 90.
Hypothesis Halt : -1000000 <= alt.
Hypothesis Hroll : -180 < roll < 180.
Hypothesis Hpitch : -90 < pitch < 90.
Hypothesis Hheading : -180 < heading < 180.

Let PC (c : R -> R -> R -> R -> R -> R -> R -> R -> R -> R -> R -> R -> R -> R -> R -> R -> R -> R -> R) :=
  pert_corr3 c lat lon alt VN VE VD roll pitch heading y0 y1 y2 y3 y4 y5 y6 y7 y8.
Let RS (d : R -> R -> R -> R -> R -> R -> R -> R -> R -> R -> R -> R -> R -> R -> R -> R -> R -> R -> R) :=
  restore3 d lat lon alt VN VE VD roll pitch heading y0 y1 y2 y3 y4 y5 y6 y7 y8.

Ltac unfE := cbv [mvec sumN Tout3 vec9]; autounfold with errstate_mat; autounfold with to_output3d_db.
Ltac unfP := unfold PC, pert_corr3, pert3, perturb_pva_lat, perturb_pva_lon, perturb_pva_alt, perturb_pva_VN,
  perturb_pva_VE, perturb_pva_VD, perturb_pva_roll, perturb_pva_pitch, perturb_pva_heading; cbv zeta.

Lemma pc3_at0 :
  PC correct3d_lat 0 = lat /\ PC correct3d_lon 0 = lon /\ PC correct3d_alt 0 = alt /\
  PC correct3d_VN 0 = VN /\ PC correct3d_VE 0 = VE /\ PC correct3d_VD 0 = VD /\
  PC correct3d_roll 0 = roll /\ PC correct3d_pitch 0 = pitch /\ PC correct3d_heading 0 = heading.
Proof.
  unfold PC, pert_corr3, pert3. cbv zeta.
  match goal with |- context [perturb_pva_lat _ _ _ _ _ _ _ _ _ (0 * ?a0) (0 * ?a1) (0 * ?a2) (0 * ?a3) (0 * ?a4) (0 * ?a5) (0 * ?a6) (0 * ?a7) (0 * ?a8)] =>
    destruct (perturb_pva_zero lat lon alt VN VE VD roll pitch heading a0 a1 a2 a3 a4 a5 a6 a7 a8)
      as [-> [-> [-> [-> [-> [-> [-> [-> ->]]]]]]]] end.
  rewrite !Rmult_0_l.
  exact (proj1 (correct_zero_is_identity lat lon alt VN VE VD roll pitch heading Hroll Hpitch Hheading)).
Qed.

Lemma pc3_VN : is_derive (PC correct3d_VN) 0 0.
Proof.
  unfP. unfold correct3d_VN. ray_facts y6 y7 y8. to_ray y6 y7 y8.
  auto_derive; [ray_ex|]. ray_vals. unfE. ring.
Qed.

Lemma pc3_VE : is_derive (PC correct3d_VE) 0 0.
Proof.
  unfP. unfold correct3d_VE. ray_facts y6 y7 y8. to_ray y6 y7 y8.
  auto_derive; [ray_ex|]. ray_vals. unfE. ring.
Qed.

Lemma pc3_VD : is_derive (PC correct3d_VD) 0 0.
Proof.
  unfP. unfold correct3d_VD. ray_facts y6 y7 y8. to_ray y6 y7 y8.
  auto_derive; [ray_ex|]. ray_vals. unfE. ring.
Qed.

Lemma pc3_alt : is_derive (PC correct3d_alt) 0 0.
Proof.
  unfP. unfold correct3d_alt. auto_derive; [exact I|]. unfE. ring.
Qed.

Lemma pc3_roll : is_derive (PC correct3d_roll) 0 0.
Proof.
  unfP. unfold correct3d_roll, euler_roll. autounfold with correct3d_db.
  ray_facts y6 y7 y8.
  pose proof (cos_d2r_pos pitch Hpitch) as Hcp.
  try set (E6 := mvec 9 _ _ 6%nat). try set (E7 := mvec 9 _ _ 7%nat). try set (E8 := mvec 9 _ _ 8%nat).
  eapply is_derive_atan2_deg.
  - to_ray y6 y7 y8. auto_derive; [ray_ex|]. reflexivity.
  - to_ray y6 y7 y8. auto_derive; [ray_ex|]. reflexivity.
  - cbv beta. ray_vals. rewrite !Rmult_0_l, !Rplus_0_r.
    destruct (polar_offcut _ (d2r_in_pi roll Hroll)) as [Hc|Hs]; [left|right]; nra.
  - cbv beta. ray_vals. rewrite !Rmult_0_l, !Rplus_0_r. try subst E6; try subst E7; try subst E8. unfE.
    trig_abbrev roll pitch heading. pose proof PI_neq0 as Hpi.
    match goal with |- _ = _ / ?D * _ => replace D with (cp * cp) by (ring [Hr]) end.
    field_simplify_eq; [ring [Hr Hp Hh] | split; [assumption | lra]].
Qed.

Lemma pc3_heading : is_derive (PC correct3d_heading) 0 0.
Proof.
  unfP. unfold correct3d_heading, euler_heading. autounfold with correct3d_db.
  ray_facts y6 y7 y8.
  pose proof (cos_d2r_pos pitch Hpitch) as Hcp.
  try set (E6 := mvec 9 _ _ 6%nat). try set (E7 := mvec 9 _ _ 7%nat). try set (E8 := mvec 9 _ _ 8%nat).
  eapply is_derive_atan2_deg.
  - to_ray y6 y7 y8. auto_derive; [ray_ex|]. reflexivity.
  - to_ray y6 y7 y8. auto_derive; [ray_ex|]. reflexivity.
  - cbv beta. ray_vals. rewrite !Rmult_0_l, !Rplus_0_r.
    destruct (polar_offcut _ (d2r_in_pi heading Hheading)) as [Hc|Hs]; [left|right]; nra.
  - cbv beta. ray_vals. rewrite !Rmult_0_l, !Rplus_0_r. try subst E6; try subst E7; try subst E8. unfE.
    trig_abbrev roll pitch heading. pose proof PI_neq0 as Hpi.
    match goal with |- _ = _ / ?D * _ => replace D with (cp * cp) by (ring [Hh]) end.
    field_simplify_eq; [ring [Hr Hp Hh] | split; [assumption | lra]].
Qed.

Lemma pc3_pitch : is_derive (PC correct3d_pitch) 0 0.
Proof.
  unfP. unfold correct3d_pitch, euler_pitch. autounfold with correct3d_db.
  ray_facts y6 y7 y8.
  pose proof (cos_d2r_pos pitch Hpitch) as Hcp.
  try set (E6 := mvec 9 _ _ 6%nat). try set (E7 := mvec 9 _ _ 7%nat). try set (E8 := mvec 9 _ _ 8%nat).
  eapply is_derive_atan2_deg.
  - to_ray y6 y7 y8. auto_derive; [ray_ex|]. reflexivity.
  - to_ray y6 y7 y8.
    auto_derive; [ray_ex; ray_vals; rewrite !Rmult_0_l, !Rplus_0_r; trig_abbrev roll pitch heading;
                  match goal with |- 0 < ?E => replace E with (cp * cp) by (ring [Hr]) end; nra
                 | reflexivity].
  - cbv beta. ray_vals. rewrite !Rmult_0_l, !Rplus_0_r. left. apply sqrt_lt_R0.
    trig_abbrev roll pitch heading.
    match goal with |- 0 < ?E => replace E with (cp * cp) by (ring [Hr]) end; nra.
  - cbv beta. ray_vals. rewrite !Rmult_0_l, !Rplus_0_r. try subst E6; try subst E7; try subst E8. unfE.
    trig_abbrev roll pitch heading. pose proof PI_neq0 as Hpi.
    repeat match goal with |- context [sqrt ?E] =>
      replace (sqrt E) with cp by
        (symmetry; replace E with (cp * cp) by (ring [Hr]); apply sqrt_square; lra) end.
    match goal with |- _ = _ / ?D * _ => replace D with 1 by (ring [Hp]) end.
    field_simplify_eq; [ring [Hr Hp Hh] | split; [assumption | lra]].
Qed.

(** *** compute_state_difference(correct_pva(perturb_pva(pva, e T y), e y), pva): derivative 0 at e = 0 *)

Lemma rs3_VN : is_derive (RS state_diff_VN) 0 0.
Proof. unfold RS, restore3, state_diff_VN. apply is_derive_minus_const. exact pc3_VN. Qed.

Lemma rs3_VE : is_derive (RS state_diff_VE) 0 0.
Proof. unfold RS, restore3, state_diff_VE. apply is_derive_minus_const. exact pc3_VE. Qed.

Lemma rs3_VD : is_derive (RS state_diff_VD) 0 0.
Proof. unfold RS, restore3, state_diff_VD. apply is_derive_minus_const. exact pc3_VD. Qed.

Lemma rs3_down : is_derive (RS state_diff_down) 0 0.
Proof.
  unfold RS, restore3, state_diff_down. pose proof pc3_alt as H. unfold PC in H.
  auto_derive; [eexists; exact H|]. derive_val H. ring.
Qed.

Lemma rs3_roll : is_derive (RS state_diff_roll) 0 0.
Proof.
  unfold RS, restore3, state_diff_roll.
  destruct pc3_at0 as [_ [_ [_ [_ [_ [_ [Hr0 [Hp0 Hh0]]]]]]]]. unfold PC in *.
  apply (is_derive_wrap180 (fun e => _ e - roll)).
  - apply is_derive_minus_const. exact pc3_roll.
  - rewrite Hr0. ring.
Qed.

Lemma rs3_pitch : is_derive (RS state_diff_pitch) 0 0.
Proof.
  unfold RS, restore3, state_diff_pitch.
  destruct pc3_at0 as [_ [_ [_ [_ [_ [_ [Hr0 [Hp0 Hh0]]]]]]]]. unfold PC in *.
  apply (is_derive_wrap180 (fun e => _ e - pitch)).
  - apply is_derive_minus_const. exact pc3_pitch.
  - rewrite Hp0. ring.
Qed.

Lemma rs3_heading : is_derive (RS state_diff_heading) 0 0.
Proof.
  unfold RS, restore3, state_diff_heading.
  destruct pc3_at0 as [_ [_ [_ [_ [_ [_ [Hr0 [Hp0 Hh0]]]]]]]]. unfold PC in *.
  apply (is_derive_wrap180 (fun e => _ e - heading)).
  - apply is_derive_minus_const. exact pc3_heading.
  - rewrite Hh0. ring.
Qed.

(* the position rows: after the perturbation the latitude / altitude are pl e / pa e (exactly), the correction is
   characterised at that perturbed point, which stays inside the domain for small e *)
Lemma rs3_north : is_derive (RS state_diff_north) 0 0.
Proof.
  assert (Halt' : -6000000 < alt) by lra.
  unfold RS, restore3, pert_corr3, pert3. cbv zeta.
  set (E0 := mvec 9 _ _ 0%nat). set (E1 := mvec 9 _ _ 1%nat). set (E2 := mvec 9 _ _ 2%nat).
  set (pl := fun e : R => lat + e * E0 * KN lat alt). set (pa := fun e : R => alt - e * E2).
  assert (Hpl : ex_derive pl 0) by (unfold pl; auto_derive; exact I).
  assert (Hpa : ex_derive pa 0) by (unfold pa; auto_derive; exact I).
  assert (Hloc : locally 0 (fun e => -90 < pl e < 90 /\ -6000000 < pa e < 1 + pa 0)).
  { apply filter_and; apply locally_between; try assumption; unfold pl, pa; rewrite ?Rmult_0_l; lra. }
  set (k1 := fun e : R => KN (pl e) (pa e)).
  assert (Hk1 : ex_derive k1 0) by (apply KN_ex_derive; try assumption; unfold pa; rewrite Rmult_0_l; lra).
  set (l2 := fun e : R => 1 / 2 * (pl e - e * y0 * k1 e + lat)).
  set (a2 := fun e : R => 1 / 2 * (pa e + e * y2 + alt)).
  assert (Hl2 : ex_derive l2 0) by (unfold l2; auto_derive; splits; try exact I; assumption).
  assert (Ha2 : ex_derive a2 0) by (unfold a2; auto_derive; splits; try exact I; assumption).
  pose proof (QN_ex_derive l2 a2 0 Hl2 Ha2) as Hq. set (q := fun e : R => QN (l2 e) (a2 e)) in *.
  apply (is_derive_ext_loc (fun e => e * ((E0 * KN lat alt - y0 * k1 e) * q e))).
  { revert Hloc. apply filter_imp. intros e [[B1 B2] [B3 _]].
    rewrite state_diff_north_eq.
    rewrite perturb_pva_lat_eq, perturb_pva_alt_eq by assumption. fold (pl e) (pa e).
    rewrite correct3d_lat_eq, correct3d_alt_eq by (first [split; assumption | assumption]).
    unfold q, l2, a2, k1, pl, pa. eqR. ring. }
  apply is_derive_e_times.
  - auto_derive. splits; try exact I; assumption.
  - unfold k1, pl, pa. rewrite !Rmult_0_l, Rplus_0_r, Rminus_0_r.
    replace (E0 * KN lat alt - y0 * KN lat alt) with 0; [ring|]. subst E0. unfE. ring.
Qed.

Lemma rs3_east : is_derive (RS state_diff_east) 0 0.
Proof.
  assert (Halt' : -6000000 < alt) by lra.
  unfold RS, restore3, pert_corr3, pert3. cbv zeta.
  set (E0 := mvec 9 _ _ 0%nat). set (E1 := mvec 9 _ _ 1%nat). set (E2 := mvec 9 _ _ 2%nat).
  set (pl := fun e : R => lat + e * E0 * KN lat alt). set (pa := fun e : R => alt - e * E2).
  assert (Hpl : ex_derive pl 0) by (unfold pl; auto_derive; exact I).
  assert (Hpa : ex_derive pa 0) by (unfold pa; auto_derive; exact I).
  assert (Hloc : locally 0 (fun e => -90 < pl e < 90 /\ -6000000 < pa e < 1 + pa 0)).
  { apply filter_and; apply locally_between; try assumption; unfold pl, pa; rewrite ?Rmult_0_l; lra. }
  assert (Hpl0 : -90 < pl 0 < 90) by (unfold pl; rewrite !Rmult_0_l; lra).
  assert (Hpa0 : -6000000 < pa 0) by (unfold pa; rewrite Rmult_0_l; lra).
  set (k1 := fun e : R => KN (pl e) (pa e)).
  assert (Hk1 : ex_derive k1 0) by (apply KN_ex_derive; assumption).
  set (k2 := fun e : R => KE (pl e) (pa e)).
  assert (Hk2 : ex_derive k2 0) by (apply KE_ex_derive; assumption).
  set (l2 := fun e : R => 1 / 2 * (pl e - e * y0 * k1 e + lat)).
  set (a2 := fun e : R => 1 / 2 * (pa e + e * y2 + alt)).
  assert (Hl2 : ex_derive l2 0) by (unfold l2; auto_derive; splits; try exact I; assumption).
  assert (Ha2 : ex_derive a2 0) by (unfold a2; auto_derive; splits; try exact I; assumption).
  assert (Hl20 : -90 < l2 0 < 90) by (unfold l2; rewrite !Rmult_0_l; lra).
  pose proof (QE_ex_derive l2 a2 0 Hl20 Hl2 Ha2) as Hq. set (q := fun e : R => QE (l2 e) (a2 e)) in *.
  apply (is_derive_ext_loc (fun e => e * ((E1 * KE lat alt - y1 * k2 e) * q e))).
  { revert Hloc. apply filter_imp. intros e [[B1 B2] [B3 _]].
    rewrite state_diff_east_eq.
    rewrite perturb_pva_lat_eq, perturb_pva_lon_eq, perturb_pva_alt_eq by assumption. fold (pl e) (pa e).
    rewrite correct3d_lat_eq, correct3d_lon_eq, correct3d_alt_eq by (first [split; assumption | assumption]).
    unfold q, l2, a2, k1, k2, pl, pa. eqR. ring. }
  apply is_derive_e_times.
  - auto_derive. splits; try exact I; assumption.
  - unfold k2, pl, pa. rewrite !Rmult_0_l, Rplus_0_r, Rminus_0_r.
    replace (E1 * KE lat alt - y1 * KE lat alt) with 0; [ring|]. subst E1. unfE. ring.
Qed.
End Restore3D.

(** the same for the no-altitude mode: E = T_out2d(pva) y has zero down / VD components *)
(** component [f] of sim.perturb_pva(pva, e * E), E = T_out2d(pva) y *)
Definition pert2 (f : R -> R -> R -> R -> R -> R -> R -> R -> R -> R -> R -> R -> R -> R -> R -> R -> R -> R -> R)
  (lat lon alt VN VE VD roll pitch heading y0 y1 y2 y3 y4 y5 y6 e : R) : R :=
  let E := mvec 7 (Tout2 lat lon alt VN VE VD roll pitch heading) (vec7 y0 y1 y2 y3 y4 y5 y6) in
  f lat lon alt VN VE VD roll pitch heading (e * E 0%nat) (e * E 1%nat) (e * E 2%nat) (e * E 3%nat)
    (e * E 4%nat) (e * E 5%nat) (e * E 6%nat) (e * E 7%nat) (e * E 8%nat).

(** component [c] of correct_pva(perturb_pva(pva, e T2d y), e y) *)
Definition pert_corr2 (c : R -> R -> R -> R -> R -> R -> R -> R -> R -> R -> R -> R -> R -> R -> R -> R -> R)
  (lat lon alt VN VE VD roll pitch heading y0 y1 y2 y3 y4 y5 y6 e : R) : R :=
  c (pert2 perturb_pva_lat lat lon alt VN VE VD roll pitch heading y0 y1 y2 y3 y4 y5 y6 e)
    (pert2 perturb_pva_lon lat lon alt VN VE VD roll pitch heading y0 y1 y2 y3 y4 y5 y6 e)
    (pert2 perturb_pva_alt lat lon alt VN VE VD roll pitch heading y0 y1 y2 y3 y4 y5 y6 e)
    (pert2 perturb_pva_VN lat lon alt VN VE VD roll pitch heading y0 y1 y2 y3 y4 y5 y6 e)
    (pert2 perturb_pva_VE lat lon alt VN VE VD roll pitch heading y0 y1 y2 y3 y4 y5 y6 e)
    (pert2 perturb_pva_VD lat lon alt VN VE VD roll pitch heading y0 y1 y2 y3 y4 y5 y6 e)
    (pert2 perturb_pva_roll lat lon alt VN VE VD roll pitch heading y0 y1 y2 y3 y4 y5 y6 e)
    (pert2 perturb_pva_pitch lat lon alt VN VE VD roll pitch heading y0 y1 y2 y3 y4 y5 y6 e)
    (pert2 perturb_pva_heading lat lon alt VN VE VD roll pitch heading y0 y1 y2 y3 y4 y5 y6 e)
    (e * y0) (e * y1) (e * y2) (e * y3) (e * y4) (e * y5) (e * y6).

(** component [d] of compute_state_difference(correct_pva(perturb_pva(pva, e T2d y), e y), pva) *)
Definition restore2
  (d : R -> R -> R -> R -> R -> R -> R -> R -> R -> R -> R -> R -> R -> R -> R -> R -> R -> R -> R)
  (lat lon alt VN VE VD roll pitch heading y0 y1 y2 y3 y4 y5 y6 e : R) : R :=
  d (pert_corr2 correct2d_lat lat lon alt VN VE VD roll pitch heading y0 y1 y2 y3 y4 y5 y6 e)
    (pert_corr2 correct2d_lon lat lon alt VN VE VD roll pitch heading y0 y1 y2 y3 y4 y5 y6 e)
    (pert_corr2 correct2d_alt lat lon alt VN VE VD roll pitch heading y0 y1 y2 y3 y4 y5 y6 e)
    (pert_corr2 correct2d_VN lat lon alt VN VE VD roll pitch heading y0 y1 y2 y3 y4 y5 y6 e)
    (pert_corr2 correct2d_VE lat lon alt VN VE VD roll pitch heading y0 y1 y2 y3 y4 y5 y6 e)
    (pert_corr2 correct2d_VD lat lon alt VN VE VD roll pitch heading y0 y1 y2 y3 y4 y5 y6 e)
    (pert_corr2 correct2d_roll lat lon alt VN VE VD roll pitch heading y0 y1 y2 y3 y4 y5 y6 e)
    (pert_corr2 correct2d_pitch lat lon alt VN VE VD roll pitch heading y0 y1 y2 y3 y4 y5 y6 e)
    (pert_corr2 correct2d_heading lat lon alt VN VE VD roll pitch heading y0 y1 y2 y3 y4 y5 y6 e)
    lat lon alt VN VE VD roll pitch heading.

Section Restore2D.
Variables lat lon alt VN VE VD roll pitch heading : R.
Variables y0 y1 y2 y3 y4 y5 y6 : R.
Hypothesis Hlat : -90 < lat < 90.
Hypothesis Halt : -1000000 <= alt.
Hypothesis Hroll : -180 < roll < 180.
Hypothesis Hpitch : -90 < pitch < 90.
Hypothesis Hheading : -180 < heading < 180.

Let PC (c : R -> R -> R -> R -> R -> R -> R -> R -> R -> R -> R -> R -> R -> R -> R -> R -> R) :=
  pert_corr2 c lat lon alt VN VE VD roll pitch heading y0 y1 y2 y3 y4 y5 y6.
Let RS (d : R -> R -> R -> R -> R -> R -> R -> R -> R -> R -> R -> R -> R -> R -> R -> R -> R -> R -> R) :=
  restore2 d lat lon alt VN VE VD roll pitch heading y0 y1 y2 y3 y4 y5 y6.

Ltac unfE := cbv [mvec sumN Tout2 vec7]; autounfold with errstate_mat; autounfold with to_output2d_db.
Ltac unfP := unfold PC, pert_corr2, pert2, perturb_pva_lat, perturb_pva_lon, perturb_pva_alt, perturb_pva_VN,
  perturb_pva_VE, perturb_pva_VD, perturb_pva_roll, perturb_pva_pitch, perturb_pva_heading; cbv zeta.

Lemma pc2_at0 :
  PC correct2d_lat 0 = lat /\ PC correct2d_lon 0 = lon /\ PC correct2d_alt 0 = alt /\
  PC correct2d_VN 0 = VN /\ PC correct2d_VE 0 = VE /\ PC correct2d_VD 0 = VD /\
  PC correct2d_roll 0 = roll /\ PC correct2d_pitch 0 = pitch /\ PC correct2d_heading 0 = heading.
Proof.
  unfold PC, pert_corr2, pert2. cbv zeta.
  match goal with |- context [perturb_pva_lat _ _ _ _ _ _ _ _ _ (0 * ?a0) (0 * ?a1) (0 * ?a2) (0 * ?a3) (0 * ?a4) (0 * ?a5) (0 * ?a6) (0 * ?a7) (0 * ?a8)] =>
    destruct (perturb_pva_zero lat lon alt VN VE VD roll pitch heading a0 a1 a2 a3 a4 a5 a6 a7 a8)
      as [-> [-> [-> [-> [-> [-> [-> [-> ->]]]]]]]] end.
  rewrite !Rmult_0_l.
  exact (proj2 (correct_zero_is_identity lat lon alt VN VE VD roll pitch heading Hroll Hpitch Hheading)).
Qed.

Lemma pc2_VN : is_derive (PC correct2d_VN) 0 0.
Proof.
  unfP. unfold correct2d_VN. ray_facts y4 y5 y6. to_ray y4 y5 y6.
  auto_derive; [ray_ex|]. ray_vals. unfE. ring.
Qed.

Lemma pc2_VE : is_derive (PC correct2d_VE) 0 0.
Proof.
  unfP. unfold correct2d_VE. ray_facts y4 y5 y6. to_ray y4 y5 y6.
  auto_derive; [ray_ex|]. ray_vals. unfE. ring.
Qed.

Lemma pc2_VD : is_derive (PC correct2d_VD) 0 0.
Proof.
  unfP. unfold correct2d_VD. ray_facts y4 y5 y6. to_ray y4 y5 y6.
  auto_derive; [ray_ex|]. ray_vals. unfE. ring.
Qed.

Lemma pc2_alt : is_derive (PC correct2d_alt) 0 0.
Proof.
  unfP. unfold correct2d_alt. auto_derive; [exact I|]. unfE. ring.
Qed.

Lemma pc2_roll : is_derive (PC correct2d_roll) 0 0.
Proof.
  unfP. unfold correct2d_roll, euler_roll. autounfold with correct2d_db.
  ray_facts y4 y5 y6.
  pose proof (cos_d2r_pos pitch Hpitch) as Hcp.
  try set (E6 := mvec 7 _ _ 6%nat). try set (E7 := mvec 7 _ _ 7%nat). try set (E8 := mvec 7 _ _ 8%nat).
  eapply is_derive_atan2_deg.
  - to_ray y4 y5 y6. auto_derive; [ray_ex|]. reflexivity.
  - to_ray y4 y5 y6. auto_derive; [ray_ex|]. reflexivity.
  - cbv beta. ray_vals. rewrite !Rmult_0_l, !Rplus_0_r.
    destruct (polar_offcut _ (d2r_in_pi roll Hroll)) as [Hc|Hs]; [left|right]; nra.
  - cbv beta. ray_vals. rewrite !Rmult_0_l, !Rplus_0_r. try subst E6; try subst E7; try subst E8. unfE.
    trig_abbrev roll pitch heading. pose proof PI_neq0 as Hpi.
    match goal with |- _ = _ / ?D * _ => replace D with (cp * cp) by (ring [Hr]) end.
    field_simplify_eq; [ring [Hr Hp Hh] | split; [assumption | lra]].
Qed.

Lemma pc2_heading : is_derive (PC correct2d_heading) 0 0.
Proof.
  unfP. unfold correct2d_heading, euler_heading. autounfold with correct2d_db.
  ray_facts y4 y5 y6.
  pose proof (cos_d2r_pos pitch Hpitch) as Hcp.
  try set (E6 := mvec 7 _ _ 6%nat). try set (E7 := mvec 7 _ _ 7%nat). try set (E8 := mvec 7 _ _ 8%nat).
  eapply is_derive_atan2_deg.
  - to_ray y4 y5 y6. auto_derive; [ray_ex|]. reflexivity.
  - to_ray y4 y5 y6. auto_derive; [ray_ex|]. reflexivity.
  - cbv beta. ray_vals. rewrite !Rmult_0_l, !Rplus_0_r.
    destruct (polar_offcut _ (d2r_in_pi heading Hheading)) as [Hc|Hs]; [left|right]; nra.
  - cbv beta. ray_vals. rewrite !Rmult_0_l, !Rplus_0_r. try subst E6; try subst E7; try subst E8. unfE.
    trig_abbrev roll pitch heading. pose proof PI_neq0 as Hpi.
    match goal with |- _ = _ / ?D * _ => replace D with (cp * cp) by (ring [Hh]) end.
    field_simplify_eq; [ring [Hr Hp Hh] | split; [assumption | lra]].
Qed.

Lemma pc2_pitch : is_derive (PC correct2d_pitch) 0 0.
Proof.
  unfP. unfold correct2d_pitch, euler_pitch. autounfold with correct2d_db.
  ray_facts y4 y5 y6.
  pose proof (cos_d2r_pos pitch Hpitch) as Hcp.
  try set (E6 := mvec 7 _ _ 6%nat). try set (E7 := mvec 7 _ _ 7%nat). try set (E8 := mvec 7 _ _ 8%nat).
  eapply is_derive_atan2_deg.
  - to_ray y4 y5 y6. auto_derive; [ray_ex|]. reflexivity.
  - to_ray y4 y5 y6.
    auto_derive; [ray_ex; ray_vals; rewrite !Rmult_0_l, !Rplus_0_r; trig_abbrev roll pitch heading;
                  match goal with |- 0 < ?E => replace E with (cp * cp) by (ring [Hr]) end; nra
                 | reflexivity].
  - cbv beta. ray_vals. rewrite !Rmult_0_l, !Rplus_0_r. left. apply sqrt_lt_R0.
    trig_abbrev roll pitch heading.
    match goal with |- 0 < ?E => replace E with (cp * cp) by (ring [Hr]) end; nra.
  - cbv beta. ray_vals. rewrite !Rmult_0_l, !Rplus_0_r. try subst E6; try subst E7; try subst E8. unfE.
    trig_abbrev roll pitch heading. pose proof PI_neq0 as Hpi.
    repeat match goal with |- context [sqrt ?E] =>
      replace (sqrt E) with cp by
        (symmetry; replace E with (cp * cp) by (ring [Hr]); apply sqrt_square; lra) end.
    match goal with |- _ = _ / ?D * _ => replace D with 1 by (ring [Hp]) end.
    field_simplify_eq; [ring [Hr Hp Hh] | split; [assumption | lra]].
Qed.

(** *** compute_state_difference(correct_pva(perturb_pva(pva, e T2d y), e y), pva): derivative 0 at e = 0 *)

Lemma rs2_VN : is_derive (RS state_diff_VN) 0 0.
Proof. unfold RS, restore2, state_diff_VN. apply is_derive_minus_const. exact pc2_VN. Qed.

Lemma rs2_VE : is_derive (RS state_diff_VE) 0 0.
Proof. unfold RS, restore2, state_diff_VE. apply is_derive_minus_const. exact pc2_VE. Qed.

Lemma rs2_VD : is_derive (RS state_diff_VD) 0 0.
Proof. unfold RS, restore2, state_diff_VD. apply is_derive_minus_const. exact pc2_VD. Qed.

Lemma rs2_down : is_derive (RS state_diff_down) 0 0.
Proof.
  unfold RS, restore2, state_diff_down. pose proof pc2_alt as H. unfold PC in H.
  auto_derive; [eexists; exact H|]. derive_val H. ring.
Qed.

Lemma rs2_roll : is_derive (RS state_diff_roll) 0 0.
Proof.
  unfold RS, restore2, state_diff_roll.
  destruct pc2_at0 as [_ [_ [_ [_ [_ [_ [Hr0 [Hp0 Hh0]]]]]]]]. unfold PC in *.
  apply (is_derive_wrap180 (fun e => _ e - roll)).
  - apply is_derive_minus_const. exact pc2_roll.
  - rewrite Hr0. ring.
Qed.

Lemma rs2_pitch : is_derive (RS state_diff_pitch) 0 0.
Proof.
  unfold RS, restore2, state_diff_pitch.
  destruct pc2_at0 as [_ [_ [_ [_ [_ [_ [Hr0 [Hp0 Hh0]]]]]]]]. unfold PC in *.
  apply (is_derive_wrap180 (fun e => _ e - pitch)).
  - apply is_derive_minus_const. exact pc2_pitch.
  - rewrite Hp0. ring.
Qed.

Lemma rs2_heading : is_derive (RS state_diff_heading) 0 0.
Proof.
  unfold RS, restore2, state_diff_heading.
  destruct pc2_at0 as [_ [_ [_ [_ [_ [_ [Hr0 [Hp0 Hh0]]]]]]]]. unfold PC in *.
  apply (is_derive_wrap180 (fun e => _ e - heading)).
  - apply is_derive_minus_const. exact pc2_heading.
  - rewrite Hh0. ring.
Qed.

(* the position rows: after the perturbation the latitude / altitude are pl e / pa e (exactly), the correction is
   characterised at that perturbed point, which stays inside the domain for small e *)
Lemma rs2_north : is_derive (RS state_diff_north) 0 0.
Proof.
  assert (Halt' : -6000000 < alt) by lra.
  unfold RS, restore2, pert_corr2, pert2. cbv zeta.
  set (E0 := mvec 7 _ _ 0%nat). set (E1 := mvec 7 _ _ 1%nat). set (E2 := mvec 7 _ _ 2%nat).
  set (pl := fun e : R => lat + e * E0 * KN lat alt). set (pa := fun e : R => alt - e * E2).
  assert (Hpl : ex_derive pl 0) by (unfold pl; auto_derive; exact I).
  assert (Hpa : ex_derive pa 0) by (unfold pa; auto_derive; exact I).
  assert (Hloc : locally 0 (fun e => -90 < pl e < 90 /\ -6000000 < pa e < 1 + pa 0)).
  { apply filter_and; apply locally_between; try assumption; unfold pl, pa; rewrite ?Rmult_0_l; lra. }
  set (k1 := fun e : R => KN (pl e) (pa e)).
  assert (Hk1 : ex_derive k1 0) by (apply KN_ex_derive; try assumption; unfold pa; rewrite Rmult_0_l; lra).
  set (l2 := fun e : R => 1 / 2 * (pl e - e * y0 * k1 e + lat)).
  set (a2 := fun e : R => 1 / 2 * (pa e + alt)).
  assert (Hl2 : ex_derive l2 0) by (unfold l2; auto_derive; splits; try exact I; assumption).
  assert (Ha2 : ex_derive a2 0) by (unfold a2; auto_derive; splits; try exact I; assumption).
  pose proof (QN_ex_derive l2 a2 0 Hl2 Ha2) as Hq. set (q := fun e : R => QN (l2 e) (a2 e)) in *.
  apply (is_derive_ext_loc (fun e => e * ((E0 * KN lat alt - y0 * k1 e) * q e))).
  { revert Hloc. apply filter_imp. intros e [[B1 B2] [B3 _]].
    rewrite state_diff_north_eq.
    rewrite perturb_pva_lat_eq, perturb_pva_alt_eq by assumption. fold (pl e) (pa e).
    rewrite correct2d_lat_eq, correct2d_alt_eq by (first [split; assumption | assumption]).
    unfold q, l2, a2, k1, pl, pa. eqR. ring. }
  apply is_derive_e_times.
  - auto_derive. splits; try exact I; assumption.
  - unfold k1, pl, pa. rewrite !Rmult_0_l, Rplus_0_r, Rminus_0_r.
    replace (E0 * KN lat alt - y0 * KN lat alt) with 0; [ring|]. subst E0. unfE. ring.
Qed.

Lemma rs2_east : is_derive (RS state_diff_east) 0 0.
Proof.
  assert (Halt' : -6000000 < alt) by lra.
  unfold RS, restore2, pert_corr2, pert2. cbv zeta.
  set (E0 := mvec 7 _ _ 0%nat). set (E1 := mvec 7 _ _ 1%nat). set (E2 := mvec 7 _ _ 2%nat).
  set (pl := fun e : R => lat + e * E0 * KN lat alt). set (pa := fun e : R => alt - e * E2).
  assert (Hpl : ex_derive pl 0) by (unfold pl; auto_derive; exact I).
  assert (Hpa : ex_derive pa 0) by (unfold pa; auto_derive; exact I).
  assert (Hloc : locally 0 (fun e => -90 < pl e < 90 /\ -6000000 < pa e < 1 + pa 0)).
  { apply filter_and; apply locally_between; try assumption; unfold pl, pa; rewrite ?Rmult_0_l; lra. }
  assert (Hpl0 : -90 < pl 0 < 90) by (unfold pl; rewrite !Rmult_0_l; lra).
  assert (Hpa0 : -6000000 < pa 0) by (unfold pa; rewrite Rmult_0_l; lra).
  set (k1 := fun e : R => KN (pl e) (pa e)).
  assert (Hk1 : ex_derive k1 0) by (apply KN_ex_derive; assumption).
  set (k2 := fun e : R => KE (pl e) (pa e)).
  assert (Hk2 : ex_derive k2 0) by (apply KE_ex_derive; assumption).
  set (l2 := fun e : R => 1 / 2 * (pl e - e * y0 * k1 e + lat)).
  set (a2 := fun e : R => 1 / 2 * (pa e + alt)).
  assert (Hl2 : ex_derive l2 0) by (unfold l2; auto_derive; splits; try exact I; assumption).
  assert (Ha2 : ex_derive a2 0) by (unfold a2; auto_derive; splits; try exact I; assumption).
  assert (Hl20 : -90 < l2 0 < 90) by (unfold l2; rewrite !Rmult_0_l; lra).
  pose proof (QE_ex_derive l2 a2 0 Hl20 Hl2 Ha2) as Hq. set (q := fun e : R => QE (l2 e) (a2 e)) in *.
  apply (is_derive_ext_loc (fun e => e * ((E1 * KE lat alt - y1 * k2 e) * q e))).
  { revert Hloc. apply filter_imp. intros e [[B1 B2] [B3 _]].
    rewrite state_diff_east_eq.
    rewrite perturb_pva_lat_eq, perturb_pva_lon_eq, perturb_pva_alt_eq by assumption. fold (pl e) (pa e).
    rewrite correct2d_lat_eq, correct2d_lon_eq, correct2d_alt_eq by (first [split; assumption | assumption]).
    unfold q, l2, a2, k1, k2, pl, pa. eqR. ring. }
  apply is_derive_e_times.
  - auto_derive. splits; try exact I; assumption.
  - unfold k2, pl, pa. rewrite !Rmult_0_l, Rplus_0_r, Rminus_0_r.
    replace (E1 * KE lat alt - y1 * KE lat alt) with 0; [ring|]. subst E1. unfE. ring.
Qed.
End Restore2D.

(** ** C05 (c): the combined statements *)

Lemma perturb_then_correct_3d lat lon alt VN VE VD roll pitch heading y0 y1 y2 y3 y4 y5 y6 y7 y8 :
  -90 < lat < 90 -> -1000000 <= alt -> -180 < roll < 180 -> -90 < pitch < 90 -> -180 < heading < 180 ->
  let RS := fun d => restore3 d lat lon alt VN VE VD roll pitch heading y0 y1 y2 y3 y4 y5 y6 y7 y8 in
  is_derive (RS state_diff_north) 0 0 /\ is_derive (RS state_diff_east) 0 0 /\
  is_derive (RS state_diff_down) 0 0 /\ is_derive (RS state_diff_VN) 0 0 /\
  is_derive (RS state_diff_VE) 0 0 /\ is_derive (RS state_diff_VD) 0 0 /\
  is_derive (RS state_diff_roll) 0 0 /\ is_derive (RS state_diff_pitch) 0 0 /\
  is_derive (RS state_diff_heading) 0 0.
Proof.
  intros Hlat Halt Hroll Hpitch Hheading. cbv zeta.
  splits; [apply rs3_north | apply rs3_east | apply rs3_down | apply rs3_VN | apply rs3_VE
          | apply rs3_VD | apply rs3_roll | apply rs3_pitch | apply rs3_heading]; assumption.
Qed.

Lemma perturb_then_correct_2d lat lon alt VN VE VD roll pitch heading y0 y1 y2 y3 y4 y5 y6 :
  -90 < lat < 90 -> -1000000 <= alt -> -180 < roll < 180 -> -90 < pitch < 90 -> -180 < heading < 180 ->
  let RS := fun d => restore2 d lat lon alt VN VE VD roll pitch heading y0 y1 y2 y3 y4 y5 y6 in
  is_derive (RS state_diff_north) 0 0 /\ is_derive (RS state_diff_east) 0 0 /\
  is_derive (RS state_diff_down) 0 0 /\ is_derive (RS state_diff_VN) 0 0 /\
  is_derive (RS state_diff_VE) 0 0 /\ is_derive (RS state_diff_VD) 0 0 /\
  is_derive (RS state_diff_roll) 0 0 /\ is_derive (RS state_diff_pitch) 0 0 /\
  is_derive (RS state_diff_heading) 0 0.
Proof.
  intros Hlat Halt Hroll Hpitch Hheading. cbv zeta.
  splits; [apply rs2_north | apply rs2_east | apply rs2_down | apply rs2_VN | apply rs2_VE
          | apply rs2_VD | apply rs2_roll | apply rs2_pitch | apply rs2_heading]; assumption.
Qed.

(** the 3D statement for an ARBITRARY output-space error E, corrected with y = T_inv(pva) E *)
Lemma Tout_Tinv_vec lat lon alt VN VE VD roll pitch heading E0 E1 E2 E3 E4 E5 E6 E7 E8 :
  cos (pitch * (PI / 180)) <> 0 ->
  let Y := mvec 9 (Tinv3 lat lon alt VN VE VD roll pitch heading) (vec9 E0 E1 E2 E3 E4 E5 E6 E7 E8) in
  forall k, (k < 9)%nat ->
  mvec 9 (Tout3 lat lon alt VN VE VD roll pitch heading)
    (vec9 (Y 0%nat) (Y 1%nat) (Y 2%nat) (Y 3%nat) (Y 4%nat) (Y 5%nat) (Y 6%nat) (Y 7%nat) (Y 8%nat)) k =
  vec9 E0 E1 E2 E3 E4 E5 E6 E7 E8 k.
Proof.
  intros Hc Y k Hk. subst Y. pose proof PI_neq0 as Hpi.
  assert (Hh : sin (heading * (PI / 180)) * sin (heading * (PI / 180)) =
               1 - cos (heading * (PI / 180)) * cos (heading * (PI / 180)))
    by (pose proof (sc1 (heading * (PI / 180))); lra).
  assert (Hp : sin (pitch * (PI / 180)) * sin (pitch * (PI / 180)) =
               1 - cos (pitch * (PI / 180)) * cos (pitch * (PI / 180)))
    by (pose proof (sc1 (pitch * (PI / 180))); lra).
  idx k; mat_entry; cbv [vec9];
    first [ ring | field_simplify_eq; [ring [Hh Hp] | try split; assumption] ].
Qed.

Definition restore3E
  (d : R -> R -> R -> R -> R -> R -> R -> R -> R -> R -> R -> R -> R -> R -> R -> R -> R -> R -> R)
  (lat lon alt VN VE VD roll pitch heading E0 E1 E2 E3 E4 E5 E6 E7 E8 e : R) : R :=
  let Y := mvec 9 (Tinv3 lat lon alt VN VE VD roll pitch heading) (vec9 E0 E1 E2 E3 E4 E5 E6 E7 E8) in
  let P := fun f : R -> R -> R -> R -> R -> R -> R -> R -> R -> R -> R -> R -> R -> R -> R -> R -> R -> R -> R =>
    f lat lon alt VN VE VD roll pitch heading (e * E0) (e * E1) (e * E2) (e * E3) (e * E4) (e * E5)
      (e * E6) (e * E7) (e * E8) in
  let C := fun c : R -> R -> R -> R -> R -> R -> R -> R -> R -> R -> R -> R -> R -> R -> R -> R -> R -> R -> R =>
    c (P perturb_pva_lat) (P perturb_pva_lon) (P perturb_pva_alt) (P perturb_pva_VN) (P perturb_pva_VE)
      (P perturb_pva_VD) (P perturb_pva_roll) (P perturb_pva_pitch) (P perturb_pva_heading)
      (e * Y 0%nat) (e * Y 1%nat) (e * Y 2%nat) (e * Y 3%nat) (e * Y 4%nat) (e * Y 5%nat)
      (e * Y 6%nat) (e * Y 7%nat) (e * Y 8%nat) in
  d (C correct3d_lat) (C correct3d_lon) (C correct3d_alt) (C correct3d_VN) (C correct3d_VE) (C correct3d_VD)
    (C correct3d_roll) (C correct3d_pitch) (C correct3d_heading)
    lat lon alt VN VE VD roll pitch heading.

Lemma restore3E_is_restore3 d lat lon alt VN VE VD roll pitch heading E0 E1 E2 E3 E4 E5 E6 E7 E8 :
  cos (pitch * (PI / 180)) <> 0 ->
  let Y := mvec 9 (Tinv3 lat lon alt VN VE VD roll pitch heading) (vec9 E0 E1 E2 E3 E4 E5 E6 E7 E8) in
  forall e,
  restore3 d lat lon alt VN VE VD roll pitch heading
    (Y 0%nat) (Y 1%nat) (Y 2%nat) (Y 3%nat) (Y 4%nat) (Y 5%nat) (Y 6%nat) (Y 7%nat) (Y 8%nat) e =
  restore3E d lat lon alt VN VE VD roll pitch heading E0 E1 E2 E3 E4 E5 E6 E7 E8 e.
Proof.
  intros Hc Y e.
  pose proof (Tout_Tinv_vec lat lon alt VN VE VD roll pitch heading E0 E1 E2 E3 E4 E5 E6 E7 E8 Hc) as H.
  cbv zeta in H. fold Y in H.
  unfold restore3, restore3E, pert_corr3, pert3. cbv zeta. fold Y.
  rewrite (H 0%nat), (H 1%nat), (H 2%nat), (H 3%nat), (H 4%nat), (H 5%nat), (H 6%nat), (H 7%nat), (H 8%nat) by lia.
  reflexivity.
Qed.

Lemma perturb_then_correct_3d_any_error lat lon alt VN VE VD roll pitch heading E0 E1 E2 E3 E4 E5 E6 E7 E8 :
  -90 < lat < 90 -> -1000000 <= alt -> -180 < roll < 180 -> -90 < pitch < 90 -> -180 < heading < 180 ->
  let RS := fun d => restore3E d lat lon alt VN VE VD roll pitch heading E0 E1 E2 E3 E4 E5 E6 E7 E8 in
  is_derive (RS state_diff_north) 0 0 /\ is_derive (RS state_diff_east) 0 0 /\
  is_derive (RS state_diff_down) 0 0 /\ is_derive (RS state_diff_VN) 0 0 /\
  is_derive (RS state_diff_VE) 0 0 /\ is_derive (RS state_diff_VD) 0 0 /\
  is_derive (RS state_diff_roll) 0 0 /\ is_derive (RS state_diff_pitch) 0 0 /\
  is_derive (RS state_diff_heading) 0 0.
Proof.
  intros Hlat Halt Hroll Hpitch Hheading. cbv zeta.
  assert (Hc : cos (pitch * (PI / 180)) <> 0) by (apply Rgt_not_eq, cos_d2r_pos; exact Hpitch).
  set (Y := mvec 9 (Tinv3 lat lon alt VN VE VD roll pitch heading) (vec9 E0 E1 E2 E3 E4 E5 E6 E7 E8)).
  destruct (perturb_then_correct_3d lat lon alt VN VE VD roll pitch heading
              (Y 0%nat) (Y 1%nat) (Y 2%nat) (Y 3%nat) (Y 4%nat) (Y 5%nat) (Y 6%nat) (Y 7%nat) (Y 8%nat)
              Hlat Halt Hroll Hpitch Hheading) as [H0 [H1 [H2 [H3 [H4 [H5 [H6 [H7 H8]]]]]]]].
  splits; (eapply is_derive_ext; [intro e; apply (restore3E_is_restore3 _ lat lon alt VN VE VD roll pitch heading
             E0 E1 E2 E3 E4 E5 E6 E7 E8 Hc e) | assumption]).
Qed.

(** * Part F: state_diff recovers a perturbation (C18 clause, stated under C05); simulated measurements (C06) *)

(** component [d] of compute_state_difference(perturb_pva(pva, e * E), pva) *)
Definition diff_of_perturbed
  (d : R -> R -> R -> R -> R -> R -> R -> R -> R -> R -> R -> R -> R -> R -> R -> R -> R -> R -> R)
  (lat lon alt VN VE VD roll pitch heading E0 E1 E2 E3 E4 E5 E6 E7 E8 e : R) : R :=
  let P := fun f : R -> R -> R -> R -> R -> R -> R -> R -> R -> R -> R -> R -> R -> R -> R -> R -> R -> R -> R =>
    f lat lon alt VN VE VD roll pitch heading (e * E0) (e * E1) (e * E2) (e * E3) (e * E4) (e * E5)
      (e * E6) (e * E7) (e * E8) in
  d (P perturb_pva_lat) (P perturb_pva_lon) (P perturb_pva_alt) (P perturb_pva_VN) (P perturb_pva_VE)
    (P perturb_pva_VD) (P perturb_pva_roll) (P perturb_pva_pitch) (P perturb_pva_heading)
    lat lon alt VN VE VD roll pitch heading.

Lemma recovers_north lat lon alt VN VE VD roll pitch heading E0 E1 E2 E3 E4 E5 E6 E7 E8 :
  -90 < lat < 90 -> -1000000 <= alt ->
  is_derive (diff_of_perturbed state_diff_north lat lon alt VN VE VD roll pitch heading E0 E1 E2 E3 E4 E5 E6 E7 E8) 0 E0 /\
  is_derive (diff_of_perturbed state_diff_east lat lon alt VN VE VD roll pitch heading E0 E1 E2 E3 E4 E5 E6 E7 E8) 0 E1.
Proof.
  intros Hlat Halt. assert (Halt' : -6000000 < alt) by lra.
  unfold diff_of_perturbed. cbv zeta. split.
  - apply (is_derive_ext (fun e => e * (E0 * KN lat alt *
             QN (1 / 2 * (lat + e * E0 * KN lat alt + lat)) (1 / 2 * (alt - e * E2 + alt))))).
    { intro e. rewrite state_diff_north_eq, perturb_pva_lat_eq, perturb_pva_alt_eq by assumption. eqR. ring. }
    apply is_derive_north; try exact Halt'; affine_side.
  - apply (is_derive_ext (fun e => e * (E1 * KE lat alt *
             QE (1 / 2 * (lat + e * E0 * KN lat alt + lat)) (1 / 2 * (alt - e * E2 + alt))))).
    { intro e. rewrite state_diff_east_eq, perturb_pva_lat_eq, perturb_pva_lon_eq, perturb_pva_alt_eq by assumption.
      eqR. ring. }
    apply is_derive_east; try exact Halt'; try exact Hlat; affine_side.
Qed.


Lemma state_diff_recovers_perturbation lat lon alt VN VE VD roll pitch heading E0 E1 E2 E3 E4 E5 E6 E7 E8 :
  -90 < lat < 90 -> -1000000 <= alt ->
  let D := fun d => diff_of_perturbed d lat lon alt VN VE VD roll pitch heading E0 E1 E2 E3 E4 E5 E6 E7 E8 in
  is_derive (D state_diff_north) 0 E0 /\ is_derive (D state_diff_east) 0 E1 /\
  is_derive (D state_diff_down) 0 E2 /\ is_derive (D state_diff_VN) 0 E3 /\
  is_derive (D state_diff_VE) 0 E4 /\ is_derive (D state_diff_VD) 0 E5 /\
  is_derive (D state_diff_roll) 0 E6 /\ is_derive (D state_diff_pitch) 0 E7 /\
  is_derive (D state_diff_heading) 0 E8.
Proof.
  intros Hlat Halt. cbv zeta.
  destruct (recovers_north lat lon alt VN VE VD roll pitch heading E0 E1 E2 E3 E4 E5 E6 E7 E8 Hlat Halt) as [HN HE].
  splits.
  - exact HN.
  - exact HE.
  - unfold diff_of_perturbed, state_diff_down, perturb_pva_alt. cbv zeta. auto_derive; [exact I|]. ring.
  - unfold diff_of_perturbed, state_diff_VN, perturb_pva_VN. cbv zeta. auto_derive; [exact I|]. ring.
  - unfold diff_of_perturbed, state_diff_VE, perturb_pva_VE. cbv zeta. auto_derive; [exact I|]. ring.
  - unfold diff_of_perturbed, state_diff_VD, perturb_pva_VD. cbv zeta. auto_derive; [exact I|]. ring.
  - unfold diff_of_perturbed, state_diff_roll, perturb_pva_roll. cbv zeta.
    apply (is_derive_wrap180 (fun e => roll + e * E6 - roll)); [auto_derive; [exact I|]; ring | ring].
  - unfold diff_of_perturbed, state_diff_pitch, perturb_pva_pitch. cbv zeta.
    apply (is_derive_wrap180 (fun e => pitch + e * E7 - pitch)); [auto_derive; [exact I|]; ring | ring].
  - unfold diff_of_perturbed, state_diff_heading, perturb_pva_heading. cbv zeta.
    apply (is_derive_wrap180 (fun e => heading + e * E8 - heading)); [auto_derive; [exact I|]; ring | ring].
Qed.

(** ** simulated measurements: sim.generate_*_measurements(trajectory, s, rng) with rng.randn = (n0, n1, n2)
    produce "truth + s * n" (position: perturb_lla by s*n metres).  Fed to the matching Measurement class as the
    measured value and evaluated at the TRUE state (no lever arm: the generators simulate the value at the IMU):
      - s = 0 (noise off): the residual is exactly 0, all three classes, both modes;
      - velocity classes: z = -(s n) exactly;   Position: down row exactly -(s n2), north / east rows -(s n)
        to first order in s (compute_lla_difference uses the mid-point radii, perturb_lla the radii at the truth). *)

Definition simZ_ned3d (lat lon alt VN VE VD roll pitch heading sd s n0 n1 n2 : R) (k : nat) : R :=
  let m := fun f : R -> R -> R -> R -> R -> R -> R -> R -> R -> R -> R -> R -> R -> R =>
    f lat lon alt VN VE VD roll pitch heading s n0 n1 n2 in
  match k with
  | 0%nat => ned3d_z0 lat lon alt VN VE VD roll pitch heading (m sim_ned_VN) (m sim_ned_VE) (m sim_ned_VD) sd
  | 1%nat => ned3d_z1 lat lon alt VN VE VD roll pitch heading (m sim_ned_VN) (m sim_ned_VE) (m sim_ned_VD) sd
  | 2%nat => ned3d_z2 lat lon alt VN VE VD roll pitch heading (m sim_ned_VN) (m sim_ned_VE) (m sim_ned_VD) sd
  | _ => 0 end.
Definition simZ_ned2d (lat lon alt VN VE VD roll pitch heading sd s n0 n1 n2 : R) (k : nat) : R :=
  let m := fun f : R -> R -> R -> R -> R -> R -> R -> R -> R -> R -> R -> R -> R -> R =>
    f lat lon alt VN VE VD roll pitch heading s n0 n1 n2 in
  match k with
  | 0%nat => ned2d_z0 lat lon alt VN VE VD roll pitch heading (m sim_ned_VN) (m sim_ned_VE) (m sim_ned_VD) sd
  | 1%nat => ned2d_z1 lat lon alt VN VE VD roll pitch heading (m sim_ned_VN) (m sim_ned_VE) (m sim_ned_VD) sd
  | _ => 0 end.
Definition simZ_body3d (lat lon alt VN VE VD roll pitch heading sd s n0 n1 n2 : R) (k : nat) : R :=
  let m := fun f : R -> R -> R -> R -> R -> R -> R -> R -> R -> R -> R -> R -> R -> R =>
    f lat lon alt VN VE VD roll pitch heading s n0 n1 n2 in
  match k with
  | 0%nat => body3d_z0 lat lon alt VN VE VD roll pitch heading (m sim_body_VX) (m sim_body_VY) (m sim_body_VZ) sd
  | 1%nat => body3d_z1 lat lon alt VN VE VD roll pitch heading (m sim_body_VX) (m sim_body_VY) (m sim_body_VZ) sd
  | 2%nat => body3d_z2 lat lon alt VN VE VD roll pitch heading (m sim_body_VX) (m sim_body_VY) (m sim_body_VZ) sd
  | _ => 0 end.
Definition simZ_body2d (lat lon alt VN VE VD roll pitch heading sd s n0 n1 n2 : R) (k : nat) : R :=
  let m := fun f : R -> R -> R -> R -> R -> R -> R -> R -> R -> R -> R -> R -> R -> R =>
    f lat lon alt VN VE VD roll pitch heading s n0 n1 n2 in
  match k with
  | 0%nat => body2d_z0 lat lon alt VN VE VD roll pitch heading (m sim_body_VX) (m sim_body_VY) (m sim_body_VZ) sd
  | 1%nat => body2d_z1 lat lon alt VN VE VD roll pitch heading (m sim_body_VX) (m sim_body_VY) (m sim_body_VZ) sd
  | 2%nat => body2d_z2 lat lon alt VN VE VD roll pitch heading (m sim_body_VX) (m sim_body_VY) (m sim_body_VZ) sd
  | _ => 0 end.
(** Position: as a function of the noise scale s (last argument) *)
Definition simZ_pos3d (lat lon alt VN VE VD roll pitch heading sd n0 n1 n2 : R) (k : nat) (s : R) : R :=
  let m := fun f : R -> R -> R -> R -> R -> R -> R -> R -> R -> R -> R -> R -> R -> R =>
    f lat lon alt VN VE VD roll pitch heading s n0 n1 n2 in
  match k with
  | 0%nat => pos3d_z0 lat lon alt VN VE VD roll pitch heading (m sim_pos_lat) (m sim_pos_lon) (m sim_pos_alt) sd
  | 1%nat => pos3d_z1 lat lon alt VN VE VD roll pitch heading (m sim_pos_lat) (m sim_pos_lon) (m sim_pos_alt) sd
  | 2%nat => pos3d_z2 lat lon alt VN VE VD roll pitch heading (m sim_pos_lat) (m sim_pos_lon) (m sim_pos_alt) sd
  | _ => 0 end.
Definition simZ_pos2d (lat lon alt VN VE VD roll pitch heading sd n0 n1 n2 : R) (k : nat) (s : R) : R :=
  let m := fun f : R -> R -> R -> R -> R -> R -> R -> R -> R -> R -> R -> R -> R -> R =>
    f lat lon alt VN VE VD roll pitch heading s n0 n1 n2 in
  match k with
  | 0%nat => pos2d_z0 lat lon alt VN VE VD roll pitch heading (m sim_pos_lat) (m sim_pos_lon) (m sim_pos_alt) sd
  | 1%nat => pos2d_z1 lat lon alt VN VE VD roll pitch heading (m sim_pos_lat) (m sim_pos_lon) (m sim_pos_alt) sd
  | _ => 0 end.

Ltac unf_sim :=
  unfold sim_ned_VN, sim_ned_VE, sim_ned_VD, sim_body_VX, sim_body_VY, sim_body_VZ,
    sim_pos_lat, sim_pos_lon, sim_pos_alt;
  autounfold with errstate_meas;
  autounfold with sim_body_db sim_pos_db ned3d_db ned2d_db body3d_db body2d_db pos3d_db pos2d_db.

(** injected error: z = -(s n), exactly, velocity classes (hence z = 0 for s = 0) *)
Lemma sim_injected_error_ned lat lon alt VN VE VD roll pitch heading sd s n0 n1 n2 :
  (forall k, (k < 3)%nat -> simZ_ned3d lat lon alt VN VE VD roll pitch heading sd s n0 n1 n2 k = - (s * vec3 n0 n1 n2 k)) /\
  (forall k, (k < 2)%nat -> simZ_ned2d lat lon alt VN VE VD roll pitch heading sd s n0 n1 n2 k = - (s * vec3 n0 n1 n2 k)).
Proof.
  split; intros k Hk; idx k; cbv [simZ_ned3d simZ_ned2d vec3]; unf_sim; ring.
Qed.

Lemma sim_injected_error_body lat lon alt VN VE VD roll pitch heading sd s n0 n1 n2 :
  (forall k, (k < 3)%nat -> simZ_body3d lat lon alt VN VE VD roll pitch heading sd s n0 n1 n2 k = - (s * vec3 n0 n1 n2 k)) /\
  (forall k, (k < 3)%nat -> simZ_body2d lat lon alt VN VE VD roll pitch heading sd s n0 n1 n2 k = - (s * vec3 n0 n1 n2 k)).
Proof.
  split; intros k Hk; idx k; cbv [simZ_body3d simZ_body2d vec3]; unf_sim; ring.
Qed.

Lemma sim_zero_residual_ned lat lon alt VN VE VD roll pitch heading sd n0 n1 n2 :
  (forall k, (k < 3)%nat -> simZ_ned3d lat lon alt VN VE VD roll pitch heading sd 0 n0 n1 n2 k = 0) /\
  (forall k, (k < 2)%nat -> simZ_ned2d lat lon alt VN VE VD roll pitch heading sd 0 n0 n1 n2 k = 0).
Proof.
  destruct (sim_injected_error_ned lat lon alt VN VE VD roll pitch heading sd 0 n0 n1 n2) as [H3 H2].
  split; intros k Hk; [rewrite H3 by exact Hk | rewrite H2 by exact Hk]; ring.
Qed.

Lemma sim_zero_residual_body lat lon alt VN VE VD roll pitch heading sd n0 n1 n2 :
  (forall k, (k < 3)%nat -> simZ_body3d lat lon alt VN VE VD roll pitch heading sd 0 n0 n1 n2 k = 0) /\
  (forall k, (k < 3)%nat -> simZ_body2d lat lon alt VN VE VD roll pitch heading sd 0 n0 n1 n2 k = 0).
Proof.
  destruct (sim_injected_error_body lat lon alt VN VE VD roll pitch heading sd 0 n0 n1 n2) as [H3 H2].
  split; intros k Hk; [rewrite H3 by exact Hk | rewrite H2 by exact Hk]; ring.
Qed.

(** Position, noise off: exactly 0 (no hypothesis at all); down row: exactly -(s n2) *)
Lemma sim_zero_residual_pos lat lon alt VN VE VD roll pitch heading sd n0 n1 n2 :
  (forall k, (k < 3)%nat -> simZ_pos3d lat lon alt VN VE VD roll pitch heading sd n0 n1 n2 k 0 = 0) /\
  (forall k, (k < 2)%nat -> simZ_pos2d lat lon alt VN VE VD roll pitch heading sd n0 n1 n2 k 0 = 0) /\
  (forall s, simZ_pos3d lat lon alt VN VE VD roll pitch heading sd n0 n1 n2 2 s = - (s * n2)).
Proof.
  splits; [intros k Hk; idx k | intros k Hk; idx k | intro s];
    cbv [simZ_pos3d simZ_pos2d];
    unfold pos3d_z0, pos3d_z1, pos3d_z2, pos2d_z0, pos2d_z1, sim_pos_lat, sim_pos_lon, sim_pos_alt;
    unfold Rdiv; ring.
Qed.

(** Position, injected error: north / east rows are -(s n) to first order in s *)
Lemma sim_injected_error_pos lat lon alt VN VE VD roll pitch heading sd n0 n1 n2 :
  -90 < lat < 90 -> -1000000 <= alt ->
  (forall k, (k < 3)%nat ->
     is_derive (simZ_pos3d lat lon alt VN VE VD roll pitch heading sd n0 n1 n2 k) 0 (- vec3 n0 n1 n2 k)) /\
  (forall k, (k < 2)%nat ->
     is_derive (simZ_pos2d lat lon alt VN VE VD roll pitch heading sd n0 n1 n2 k) 0 (- vec3 n0 n1 n2 k)).
Proof.
  intros Hlat Halt. assert (Halt' : -6000000 < alt) by lra.
  pose proof (fun m1 m2 m3 k H => residual_form_pos3d lat lon alt VN VE VD roll pitch heading m1 m2 m3 sd k H) as R3.
  pose proof (fun m1 m2 m3 k H => residual_form_pos2d lat lon alt VN VE VD roll pitch heading m1 m2 m3 sd k H) as R2.
  split; intros k Hk; idx k; cbv [simZ_pos3d simZ_pos2d vec3].
  - apply (is_derive_ext (fun s => s * (- n0 * KN lat alt *
             QN (1 / 2 * (lat + (lat + s * n0 * KN lat alt))) (1 / 2 * (alt + (alt - s * n2)))))).
    { intro s. rewrite (R3 _ _ _ 0%nat ltac:(lia)). cbv [lla_diff].
      rewrite lla_diff0_eq, sim_pos_lat_eq, sim_pos_alt_eq by assumption. eqR. ring. }
    apply is_derive_north; try exact Halt'; affine_side.
  - apply (is_derive_ext (fun s => s * (- n1 * KE lat alt *
             QE (1 / 2 * (lat + (lat + s * n0 * KN lat alt))) (1 / 2 * (alt + (alt - s * n2)))))).
    { intro s. rewrite (R3 _ _ _ 1%nat ltac:(lia)). cbv [lla_diff].
      rewrite lla_diff1_eq, sim_pos_lat_eq, sim_pos_lon_eq, sim_pos_alt_eq by assumption. eqR. ring. }
    apply is_derive_east; try exact Halt'; try exact Hlat; affine_side.
  - apply (is_derive_ext (fun s => - (s * n2))).
    { intro s. rewrite (R3 _ _ _ 2%nat ltac:(lia)). cbv [lla_diff].
      rewrite lla_diff2_eq, sim_pos_alt_eq by assumption. eqR. ring. }
    auto_derive; [exact I | ring].
  - apply (is_derive_ext (fun s => s * (- n0 * KN lat alt *
             QN (1 / 2 * (lat + (lat + s * n0 * KN lat alt))) (1 / 2 * (alt + (alt - s * n2)))))).
    { intro s. rewrite (R2 _ _ _ 0%nat ltac:(lia)). cbv [lla_diff].
      rewrite lla_diff0_eq, sim_pos_lat_eq, sim_pos_alt_eq by assumption. eqR. ring. }
    apply is_derive_north; try exact Halt'; affine_side.
  - apply (is_derive_ext (fun s => s * (- n1 * KE lat alt *
             QE (1 / 2 * (lat + (lat + s * n0 * KN lat alt))) (1 / 2 * (alt + (alt - s * n2)))))).
    { intro s. rewrite (R2 _ _ _ 1%nat ltac:(lia)). cbv [lla_diff].
      rewrite lla_diff1_eq, sim_pos_lat_eq, sim_pos_lon_eq, sim_pos_alt_eq by assumption. eqR. ring. }
    apply is_derive_east; try exact Halt'; try exact Hlat; affine_side.
Qed.
