(** C16: Earth model and geodetic transforms are one coherent ellipsoidal geometry.
    Theorems about the GENERATED definitions (Gen/Earth.v, Gen/Transform.v,
    Gen/NumbaIntegrate.v) against the hand-written Spec/Ellipsoid.v. *)
From Coq Require Import Reals Lra Lia.
From Coquelicot Require Import Coquelicot.
From PV Require Import Base.RealTac Spec.LibSpecs Spec.Ellipsoid.
From PV Require Import Gen.Earth Gen.Transform Gen.NumbaIntegrate.
Open Scope R_scope.

Ltac unf_ecef := unfold lla_to_ecef_r0, lla_to_ecef_r1, lla_to_ecef_r2;
                 repeat autounfold with lla_to_ecef_db.
Ltac unf_radii := unfold principal_radii_rn, principal_radii_re, principal_radii_rp;
                  repeat autounfold with principal_radii_db.
Ltac unf_en := unfold mat_en_from_ll_m00, mat_en_from_ll_m01, mat_en_from_ll_m02,
                 mat_en_from_ll_m10, mat_en_from_ll_m11, mat_en_from_ll_m12,
                 mat_en_from_ll_m20, mat_en_from_ll_m21, mat_en_from_ll_m22;
               repeat autounfold with mat_en_from_ll_db.

(* the square root that appears everywhere, with its defining facts in context *)
Ltac with_q phi :=
  let q := fresh "q" in
  set (q := sqrt (1 - 66943799901413 / 10000000000000000 * (sin phi * sin phi))) in *;
  assert (q * q = 1 - 66943799901413 / 10000000000000000 * (sin phi * sin phi))
    by (apply sqrtW_sq);
  assert (0 < q) by (apply sqrtW_pos);
  assert (q <> 0) by lra.

(** ** 1. lla_to_ecef is the geodetic parametrisation of the ellipsoid *)

Lemma ecef_on_ellipsoid lat lon :
  on_ellipsoid A_ E2_ (lla_to_ecef_r0 lat lon 0) (lla_to_ecef_r1 lat lon 0)
               (lla_to_ecef_r2 lat lon 0).
Proof.
  unfold on_ellipsoid, b2. unf_ecef.
  set (phi := lat * (PI/180)). set (lam := lon * (PI/180)).
  with_q phi.
  pose proof (sc1 phi) as Hp. pose proof (sc1 lam) as Hl.
  unfold A_, E2_.
  field_simplify_eq; [|lra]. nra.
Qed.

Lemma ecef_altitude lat lon alt :
  lla_to_ecef_r0 lat lon alt = lla_to_ecef_r0 lat lon 0 + alt * up_x (lat * d2r) (lon * d2r) /\
  lla_to_ecef_r1 lat lon alt = lla_to_ecef_r1 lat lon 0 + alt * up_y (lat * d2r) (lon * d2r) /\
  lla_to_ecef_r2 lat lon alt = lla_to_ecef_r2 lat lon 0 + alt * up_z (lat * d2r) (lon * d2r).
Proof.
  unfold up_x, up_y, up_z, d2r. unf_ecef. repeat split; ring.
Qed.

Lemma ecef_normal lat lon :
  let phi := lat * d2r in let lam := lon * d2r in
  let x := lla_to_ecef_r0 lat lon 0 in let y := lla_to_ecef_r1 lat lon 0 in
  let z := lla_to_ecef_r2 lat lon 0 in
  let k := R_transverse A_ E2_ phi / (A_ * A_) in
  grad_x A_ x y z = k * up_x phi lam /\
  grad_y A_ x y z = k * up_y phi lam /\
  grad_z A_ E2_ x y z = k * up_z phi lam.
Proof.
  cbv zeta. unfold grad_x, grad_y, grad_z, b2, R_transverse, W2, up_x, up_y, up_z, d2r.
  unf_ecef. set (phi := lat * (PI/180)). set (lam := lon * (PI/180)).
  unfold A_, E2_. with_q phi.
  repeat split; field; lra.
Qed.

Lemma radii_are_principal lat alt :
  -90 <= lat <= 90 ->
  let phi := lat * d2r in
  principal_radii_rn lat alt = R_meridian A_ E2_ phi + alt /\
  principal_radii_re lat alt = R_transverse A_ E2_ phi + alt /\
  principal_radii_rp lat alt = (R_transverse A_ E2_ phi + alt) * cos phi.
Proof.
  intros Hlat. cbv zeta. unfold R_meridian, R_transverse, W2, d2r. unf_radii.
  set (phi := lat * (PI/180)).
  rewrite (sqrt_1msin2 phi) by (apply cos_d2r_nonneg; exact Hlat).
  unfold A_, E2_. with_q phi.
  repeat split; field; lra.
Qed.

(** ** 2. The NED frame matrix: columns are north, east, down in ECEF *)

Lemma cos_m90 x : cos ((-90 - x) * (PI / 180)) = - sin (x * (PI / 180)).
Proof.
  replace ((-90 - x) * (PI / 180)) with (- (PI / 2 + x * (PI / 180))) by (field; apply PI_neq0).
  rewrite cos_neg. rewrite cos_plus. rewrite cos_PI2, sin_PI2. ring.
Qed.

Lemma sin_m90 x : sin ((-90 - x) * (PI / 180)) = - cos (x * (PI / 180)).
Proof.
  replace ((-90 - x) * (PI / 180)) with (- (PI / 2 + x * (PI / 180))) by (field; apply PI_neq0).
  rewrite sin_neg. rewrite sin_plus. rewrite cos_PI2, sin_PI2. ring.
Qed.

Lemma mat_en_columns lat lon :
  let phi := lat * d2r in let lam := lon * d2r in
  (mat_en_from_ll_m00 lat lon = north_x phi lam /\ mat_en_from_ll_m10 lat lon = north_y phi lam /\
   mat_en_from_ll_m20 lat lon = north_z phi lam) /\
  (mat_en_from_ll_m01 lat lon = east_x phi lam /\ mat_en_from_ll_m11 lat lon = east_y phi lam /\
   mat_en_from_ll_m21 lat lon = east_z phi lam) /\
  (mat_en_from_ll_m02 lat lon = - up_x phi lam /\ mat_en_from_ll_m12 lat lon = - up_y phi lam /\
   mat_en_from_ll_m22 lat lon = - up_z phi lam).
Proof.
  cbv zeta. unfold north_x, north_y, north_z, east_x, east_y, east_z, up_x, up_y, up_z, d2r.
  unf_en. rewrite !cos_m90, !sin_m90. repeat split; ring.
Qed.

Lemma mat_en_array_form_equal lat lon :
  mat_en_from_ll_arr_m00 lat lon = mat_en_from_ll_m00 lat lon /\
  mat_en_from_ll_arr_m01 lat lon = mat_en_from_ll_m01 lat lon /\
  mat_en_from_ll_arr_m02 lat lon = mat_en_from_ll_m02 lat lon /\
  mat_en_from_ll_arr_m10 lat lon = mat_en_from_ll_m10 lat lon /\
  mat_en_from_ll_arr_m11 lat lon = mat_en_from_ll_m11 lat lon /\
  mat_en_from_ll_arr_m12 lat lon = mat_en_from_ll_m12 lat lon /\
  mat_en_from_ll_arr_m20 lat lon = mat_en_from_ll_m20 lat lon /\
  mat_en_from_ll_arr_m21 lat lon = mat_en_from_ll_m21 lat lon /\
  mat_en_from_ll_arr_m22 lat lon = mat_en_from_ll_m22 lat lon.
Proof.
  unfold mat_en_from_ll_arr_m00, mat_en_from_ll_arr_m01, mat_en_from_ll_arr_m02,
    mat_en_from_ll_arr_m10, mat_en_from_ll_arr_m11, mat_en_from_ll_arr_m12,
    mat_en_from_ll_arr_m20, mat_en_from_ll_arr_m21, mat_en_from_ll_arr_m22.
  repeat autounfold with mat_en_from_ll_arr_db. unf_en. repeat split; ring.
Qed.

Lemma frame_orthonormal phi lam :
  north_x phi lam * north_x phi lam + north_y phi lam * north_y phi lam + north_z phi lam * north_z phi lam = 1 /\
  east_x phi lam * east_x phi lam + east_y phi lam * east_y phi lam + east_z phi lam * east_z phi lam = 1 /\
  up_x phi lam * up_x phi lam + up_y phi lam * up_y phi lam + up_z phi lam * up_z phi lam = 1 /\
  north_x phi lam * east_x phi lam + north_y phi lam * east_y phi lam + north_z phi lam * east_z phi lam = 0 /\
  north_x phi lam * up_x phi lam + north_y phi lam * up_y phi lam + north_z phi lam * up_z phi lam = 0 /\
  east_x phi lam * up_x phi lam + east_y phi lam * up_y phi lam + east_z phi lam * up_z phi lam = 0.
Proof.
  unfold north_x, north_y, north_z, east_x, east_y, east_z, up_x, up_y, up_z.
  pose proof (sc1 phi) as Hp. pose proof (sc1 lam) as Hl.
  repeat split; nra.
Qed.

(** determinant +1: north x east = down *)
Lemma frame_right_handed phi lam :
  north_y phi lam * east_z phi lam - north_z phi lam * east_y phi lam = - up_x phi lam /\
  north_z phi lam * east_x phi lam - north_x phi lam * east_z phi lam = - up_y phi lam /\
  north_x phi lam * east_y phi lam - north_y phi lam * east_x phi lam = - up_z phi lam.
Proof.
  unfold north_x, north_y, north_z, east_x, east_y, east_z, up_x, up_y, up_z.
  pose proof (sc1 phi) as Hp. pose proof (sc1 lam) as Hl.
  repeat split; nra.
Qed.

Lemma mat_en_orthonormal lat lon :
  let m := fun i j => match i, j with
    | 0%nat, 0%nat => mat_en_from_ll_m00 lat lon | 0%nat, 1%nat => mat_en_from_ll_m01 lat lon
    | 0%nat, _ => mat_en_from_ll_m02 lat lon
    | 1%nat, 0%nat => mat_en_from_ll_m10 lat lon | 1%nat, 1%nat => mat_en_from_ll_m11 lat lon
    | 1%nat, _ => mat_en_from_ll_m12 lat lon
    | _, 0%nat => mat_en_from_ll_m20 lat lon | _, 1%nat => mat_en_from_ll_m21 lat lon
    | _, _ => mat_en_from_ll_m22 lat lon end in
  forall i j, (i < 3)%nat -> (j < 3)%nat ->
    m 0%nat i * m 0%nat j + m 1%nat i * m 1%nat j + m 2%nat i * m 2%nat j = if Nat.eqb i j then 1 else 0.
Proof.
  cbv zeta. intros i j Hi Hj.
  destruct (mat_en_columns lat lon) as [[N0 [N1 N2]] [[E0 [E1 E2]] [D0 [D1 D2]]]].
  destruct (frame_orthonormal (lat * d2r) (lon * d2r)) as [O1 [O2 [O3 [O4 [O5 O6]]]]].
  destruct i as [|[|[|i]]]; try lia; destruct j as [|[|[|j]]]; try lia; cbn [Nat.eqb];
    rewrite ?N0, ?N1, ?N2, ?E0, ?E1, ?E2, ?D0, ?D1, ?D2; nra.
Qed.

(** ** 3. Partial derivatives of ECEF position: radii times frame axes *)

Lemma ecef_partial_lat lat lon alt :
  -90 <= lat <= 90 ->
  let phi := lat * d2r in let lam := lon * d2r in
  let k := d2r * principal_radii_rn lat alt in
  is_derive (fun t => lla_to_ecef_r0 t lon alt) lat (k * north_x phi lam) /\
  is_derive (fun t => lla_to_ecef_r1 t lon alt) lat (k * north_y phi lam) /\
  is_derive (fun t => lla_to_ecef_r2 t lon alt) lat (k * north_z phi lam).
Proof.
  intros Hlat. cbv zeta. unfold north_x, north_y, north_z, d2r. unf_radii. unf_ecef.
  pose proof (W_pos' (lat * (PI/180))) as HW.
  repeat split; auto_derive; try (repeat split; auto; lra);
    set (phi := lat * (PI/180)) in *; set (lam := lon * (PI/180)); with_q phi;
    pose proof (sc1 phi) as Hp; field_simplify_eq; try lra; try nra.
Qed.
