(** C16: Earth model and geodetic transforms are one coherent ellipsoidal geometry.
    Theorems about the GENERATED definitions (Gen/Earth.v, Gen/Transform.v,
    Gen/NumbaIntegrate.v) against the hand-written Spec/Ellipsoid.v. *)
From Coq Require Import Reals Lra Lia Nsatz.
From Coquelicot Require Import Coquelicot.
From PV Require Import Base.RealTac Spec.LibSpecs Spec.Ellipsoid.
From PV Require Import Gen.Earth Gen.Transform Gen.NumbaIntegrate.
Open Scope R_scope.

Ltac fold_minus :=
  repeat match goal with |- context [?a + - ?b] => change (a + - b) with (a - b) end.

(* Bring every spelling of  W = 1 - e2 sin^2 x  and of  1 - sin^2 x  (commuted products, squares written
   either way, inside or outside a square root) to ONE canonical spelling, so that the proofs below do not
   depend on the order in which the traced code multiplies its factors. *)
Ltac canon_W :=
  repeat match goal with
  | |- context [1 - ?t] =>
      lazymatch t with
      | 66943799901413 / 10000000000000000 * (sin ?x * sin ?x) => fail
      | sin ?x * sin ?x => fail
      | context [sin ?x] =>
          first [ replace (1 - t) with (1 - 66943799901413 / 10000000000000000 * (sin x * sin x)) by ring
                | replace (1 - t) with (1 - sin x * sin x) by ring ]
      end
  | |- context [sqrt ?a] =>
      lazymatch a with
      | 1 - 66943799901413 / 10000000000000000 * (sin ?x * sin ?x) => fail
      | 1 - sin ?x * sin ?x => fail
      | context [sin ?x] =>
          first [ replace a with (1 - 66943799901413 / 10000000000000000 * (sin x * sin x)) by ring
                | replace a with (1 - sin x * sin x) by ring ]
      end
  end.

Ltac canon := fold_minus; canon_W.

(* bring every spelling of the angle [x] (e.g. (a+b)/2*k for 1/2*(a+b)*k) under sin / cos to [x] itself *)
Ltac canon_angle x :=
  repeat match goal with
  | |- context [sin ?a] =>
      lazymatch a with x => fail | _ => replace a with x by (first [ring | field | lra]) end
  | |- context [cos ?a] =>
      lazymatch a with x => fail | _ => replace a with x by (first [ring | field | lra]) end
  end.

(* the unfolding tactics (also used by other developments) leave the goal with W in its canonical spelling *)
Ltac unf_ecef := unfold lla_to_ecef_r0, lla_to_ecef_r1, lla_to_ecef_r2;
                 repeat autounfold with lla_to_ecef_db; canon_W.
Ltac unf_radii := unfold principal_radii_rn, principal_radii_re, principal_radii_rp;
                  repeat autounfold with principal_radii_db; canon_W.
Ltac unf_en := unfold mat_en_from_ll_m00, mat_en_from_ll_m01, mat_en_from_ll_m02,
                 mat_en_from_ll_m10, mat_en_from_ll_m11, mat_en_from_ll_m12,
                 mat_en_from_ll_m20, mat_en_from_ll_m21, mat_en_from_ll_m22;
               repeat autounfold with mat_en_from_ll_db.

(* the square root that appears everywhere, with its defining facts in context *)
Ltac with_q phi :=
  let q := fresh "q" in
  set (q := sqrt (1 - 66943799901413 / 10000000000000000 * (sin phi * sin phi))) in *;
  assert (q * q = 1 - 66943799901413 / 10000000000000000 * (sin phi * sin phi))
    by (apply sqrtW_sq);
  assert (0 < q) by (apply sqrtW_pos);
  assert (q <> 0) by lra;
  assert (0 < 1 - 66943799901413 / 10000000000000000 * (sin phi * sin phi)) by (apply W_pos').

(* make the numeric constants abstract so that [ring [H..]] can use q*q = 1 - e2*s*s *)
Ltac abs_consts :=
  replace (9933056200098587 / 10000000000000000)
    with (1 - 66943799901413 / 10000000000000000) in * by lra;
  set (e2c := 66943799901413 / 10000000000000000) in *;
  set (ac := 6378137) in *.

(** ** 1. lla_to_ecef is the geodetic parametrisation of the ellipsoid *)

Lemma ecef_on_ellipsoid lat lon :
  on_ellipsoid A_ E2_ (lla_to_ecef_r0 lat lon 0) (lla_to_ecef_r1 lat lon 0)
               (lla_to_ecef_r2 lat lon 0).
Proof.
  unfold on_ellipsoid, b2. unf_ecef. canon.
  set (phi := lat * (PI/180)). set (lam := lon * (PI/180)).
  with_q phi.
  pose proof (sc1 phi) as Hp. pose proof (sc1 lam) as Hl.
  unfold A_, E2_.
  field_simplify_eq; [|lra]. nra.
Qed.

Lemma ecef_altitude lat lon alt :
  lla_to_ecef_r0 lat lon alt = lla_to_ecef_r0 lat lon 0 + alt * up_x (lat * d2r) (lon * d2r) /\
  lla_to_ecef_r1 lat lon alt = lla_to_ecef_r1 lat lon 0 + alt * up_y (lat * d2r) (lon * d2r) /\
  lla_to_ecef_r2 lat lon alt = lla_to_ecef_r2 lat lon 0 + alt * up_z (lat * d2r) (lon * d2r).
Proof.
  unfold up_x, up_y, up_z, d2r. unf_ecef. repeat split; ring.
Qed.

Lemma ecef_normal lat lon :
  let phi := lat * d2r in let lam := lon * d2r in
  let x := lla_to_ecef_r0 lat lon 0 in let y := lla_to_ecef_r1 lat lon 0 in
  let z := lla_to_ecef_r2 lat lon 0 in
  let k := R_transverse A_ E2_ phi / (A_ * A_) in
  grad_x A_ x y z = k * up_x phi lam /\
  grad_y A_ x y z = k * up_y phi lam /\
  grad_z A_ E2_ x y z = k * up_z phi lam.
Proof.
  cbv zeta. unfold grad_x, grad_y, grad_z, b2, R_transverse, W2, up_x, up_y, up_z, d2r.
  unf_ecef. canon. set (phi := lat * (PI/180)). set (lam := lon * (PI/180)).
  unfold A_, E2_. with_q phi.
  repeat split; field; lra.
Qed.

Lemma radii_are_principal lat alt :
  -90 <= lat <= 90 ->
  let phi := lat * d2r in
  principal_radii_rn lat alt = R_meridian A_ E2_ phi + alt /\
  principal_radii_re lat alt = R_transverse A_ E2_ phi + alt /\
  principal_radii_rp lat alt = (R_transverse A_ E2_ phi + alt) * cos phi.
Proof.
  intros Hlat. cbv zeta. unfold R_meridian, R_transverse, W2, d2r. unf_radii. canon.
  set (phi := lat * (PI/180)).
  rewrite (sqrt_1msin2 phi) by (apply cos_d2r_nonneg; exact Hlat).
  unfold A_, E2_. with_q phi.
  repeat split; field; lra.
Qed.

(** ** 2. The NED frame matrix: columns are north, east, down in ECEF *)

Lemma cos_m90 x : cos ((-90 - x) * (PI / 180)) = - sin (x * (PI / 180)).
Proof.
  replace ((-90 - x) * (PI / 180)) with (- (PI / 2 + x * (PI / 180))) by (field; apply PI_neq0).
  rewrite cos_neg. rewrite cos_plus. rewrite cos_PI2, sin_PI2. ring.
Qed.

Lemma sin_m90 x : sin ((-90 - x) * (PI / 180)) = - cos (x * (PI / 180)).
Proof.
  replace ((-90 - x) * (PI / 180)) with (- (PI / 2 + x * (PI / 180))) by (field; apply PI_neq0).
  rewrite sin_neg. rewrite sin_plus. rewrite cos_PI2, sin_PI2. ring.
Qed.

Lemma mat_en_columns lat lon :
  let phi := lat * d2r in let lam := lon * d2r in
  (mat_en_from_ll_m00 lat lon = north_x phi lam /\ mat_en_from_ll_m10 lat lon = north_y phi lam /\
   mat_en_from_ll_m20 lat lon = north_z phi lam) /\
  (mat_en_from_ll_m01 lat lon = east_x phi lam /\ mat_en_from_ll_m11 lat lon = east_y phi lam /\
   mat_en_from_ll_m21 lat lon = east_z phi lam) /\
  (mat_en_from_ll_m02 lat lon = - up_x phi lam /\ mat_en_from_ll_m12 lat lon = - up_y phi lam /\
   mat_en_from_ll_m22 lat lon = - up_z phi lam).
Proof.
  cbv zeta. unfold north_x, north_y, north_z, east_x, east_y, east_z, up_x, up_y, up_z, d2r.
  unf_en. rewrite !cos_m90, !sin_m90. repeat split; ring.
Qed.

Lemma mat_en_array_form_equal lat lon :
  mat_en_from_ll_arr_m00 lat lon = mat_en_from_ll_m00 lat lon /\
  mat_en_from_ll_arr_m01 lat lon = mat_en_from_ll_m01 lat lon /\
  mat_en_from_ll_arr_m02 lat lon = mat_en_from_ll_m02 lat lon /\
  mat_en_from_ll_arr_m10 lat lon = mat_en_from_ll_m10 lat lon /\
  mat_en_from_ll_arr_m11 lat lon = mat_en_from_ll_m11 lat lon /\
  mat_en_from_ll_arr_m12 lat lon = mat_en_from_ll_m12 lat lon /\
  mat_en_from_ll_arr_m20 lat lon = mat_en_from_ll_m20 lat lon /\
  mat_en_from_ll_arr_m21 lat lon = mat_en_from_ll_m21 lat lon /\
  mat_en_from_ll_arr_m22 lat lon = mat_en_from_ll_m22 lat lon.
Proof.
  unfold mat_en_from_ll_arr_m00, mat_en_from_ll_arr_m01, mat_en_from_ll_arr_m02,
    mat_en_from_ll_arr_m10, mat_en_from_ll_arr_m11, mat_en_from_ll_arr_m12,
    mat_en_from_ll_arr_m20, mat_en_from_ll_arr_m21, mat_en_from_ll_arr_m22.
  repeat autounfold with mat_en_from_ll_arr_db. unf_en. repeat split; ring.
Qed.

Lemma frame_orthonormal phi lam :
  north_x phi lam * north_x phi lam + north_y phi lam * north_y phi lam + north_z phi lam * north_z phi lam = 1 /\
  east_x phi lam * east_x phi lam + east_y phi lam * east_y phi lam + east_z phi lam * east_z phi lam = 1 /\
  up_x phi lam * up_x phi lam + up_y phi lam * up_y phi lam + up_z phi lam * up_z phi lam = 1 /\
  north_x phi lam * east_x phi lam + north_y phi lam * east_y phi lam + north_z phi lam * east_z phi lam = 0 /\
  north_x phi lam * up_x phi lam + north_y phi lam * up_y phi lam + north_z phi lam * up_z phi lam = 0 /\
  east_x phi lam * up_x phi lam + east_y phi lam * up_y phi lam + east_z phi lam * up_z phi lam = 0.
Proof.
  unfold north_x, north_y, north_z, east_x, east_y, east_z, up_x, up_y, up_z.
  assert (Hp : sin phi * sin phi = 1 - cos phi * cos phi) by (pose proof (sc1 phi); lra).
  assert (Hl : sin lam * sin lam = 1 - cos lam * cos lam) by (pose proof (sc1 lam); lra).
  repeat split; ring [Hp Hl].
Qed.

(** determinant +1: north x east = down *)
Lemma frame_right_handed phi lam :
  north_y phi lam * east_z phi lam - north_z phi lam * east_y phi lam = - up_x phi lam /\
  north_z phi lam * east_x phi lam - north_x phi lam * east_z phi lam = - up_y phi lam /\
  north_x phi lam * east_y phi lam - north_y phi lam * east_x phi lam = - up_z phi lam.
Proof.
  unfold north_x, north_y, north_z, east_x, east_y, east_z, up_x, up_y, up_z.
  assert (Hp : sin phi * sin phi = 1 - cos phi * cos phi) by (pose proof (sc1 phi); lra).
  assert (Hl : sin lam * sin lam = 1 - cos lam * cos lam) by (pose proof (sc1 lam); lra).
  repeat split; ring [Hp Hl].
Qed.

Lemma mat_en_orthonormal lat lon :
  let m := fun i j => match i, j with
    | 0%nat, 0%nat => mat_en_from_ll_m00 lat lon | 0%nat, 1%nat => mat_en_from_ll_m01 lat lon
    | 0%nat, _ => mat_en_from_ll_m02 lat lon
    | 1%nat, 0%nat => mat_en_from_ll_m10 lat lon | 1%nat, 1%nat => mat_en_from_ll_m11 lat lon
    | 1%nat, _ => mat_en_from_ll_m12 lat lon
    | _, 0%nat => mat_en_from_ll_m20 lat lon | _, 1%nat => mat_en_from_ll_m21 lat lon
    | _, _ => mat_en_from_ll_m22 lat lon end in
  forall i j, (i < 3)%nat -> (j < 3)%nat ->
    m 0%nat i * m 0%nat j + m 1%nat i * m 1%nat j + m 2%nat i * m 2%nat j = if Nat.eqb i j then 1 else 0.
Proof.
  cbv zeta. intros i j Hi Hj.
  destruct (mat_en_columns lat lon) as [[N0 [N1 N2]] [[E0 [E1 E2]] [D0 [D1 D2]]]].
  destruct (frame_orthonormal (lat * d2r) (lon * d2r)) as [O1 [O2 [O3 [O4 [O5 O6]]]]].
  destruct i as [|[|[|i]]]; try lia; destruct j as [|[|[|j]]]; try lia; cbn [Nat.eqb];
    rewrite ?N0, ?N1, ?N2, ?E0, ?E1, ?E2, ?D0, ?D1, ?D2; nra.
Qed.

(** ** 3. Partial derivatives of ECEF position: radii times frame axes *)

Lemma ecef_partial_lat lat lon alt :
  -90 <= lat <= 90 ->
  let phi := lat * d2r in let lam := lon * d2r in
  let k := d2r * principal_radii_rn lat alt in
  is_derive (fun t => lla_to_ecef_r0 t lon alt) lat (k * north_x phi lam) /\
  is_derive (fun t => lla_to_ecef_r1 t lon alt) lat (k * north_y phi lam) /\
  is_derive (fun t => lla_to_ecef_r2 t lon alt) lat (k * north_z phi lam).
Proof.
  intros Hlat. cbv zeta. unfold north_x, north_y, north_z, d2r. unf_radii. unf_ecef.
  pose proof (W_pos' (lat * (PI/180))) as HW.
  pose proof (sqrtW_pos (lat * (PI/180))) as HQ.
  split; [|split]; (auto_derive; [canon; repeat split; auto; lra|]);
    canon; set (phi := lat * (PI/180)) in *; set (lam := lon * (PI/180)); with_q phi;
    assert (Hc : cos phi * cos phi = 1 - sin phi * sin phi) by (pose proof (sc1 phi); lra);
    abs_consts;
    match goal with H : ?q * ?q = 1 - _ |- _ =>
      rewrite <- H; field_simplify_eq; [ring [H Hc] | lra] end.
Qed.

Lemma ecef_partial_lon lat lon alt :
  -90 <= lat <= 90 ->
  let phi := lat * d2r in let lam := lon * d2r in
  let k := d2r * principal_radii_rp lat alt in
  is_derive (fun t => lla_to_ecef_r0 lat t alt) lon (k * east_x phi lam) /\
  is_derive (fun t => lla_to_ecef_r1 lat t alt) lon (k * east_y phi lam) /\
  is_derive (fun t => lla_to_ecef_r2 lat t alt) lon (k * east_z phi lam).
Proof.
  intros Hlat. cbv zeta. unfold east_x, east_y, east_z, d2r. unf_radii. unf_ecef. canon.
  rewrite (sqrt_1msin2 (lat * (PI/180))) by (apply cos_d2r_nonneg; exact Hlat).
  split; [|split]; (auto_derive; [auto|]); ring.
Qed.

Lemma ecef_partial_alt lat lon alt :
  let phi := lat * d2r in let lam := lon * d2r in
  is_derive (fun t => lla_to_ecef_r0 lat lon t) alt (up_x phi lam) /\
  is_derive (fun t => lla_to_ecef_r1 lat lon t) alt (up_y phi lam) /\
  is_derive (fun t => lla_to_ecef_r2 lat lon t) alt (up_z phi lam).
Proof.
  cbv zeta. unfold up_x, up_y, up_z, d2r. unf_ecef.
  split; [|split]; (auto_derive; [auto|]); ring.
Qed.

(** ** 4. Metre perturbation and metre difference agree to first order *)

Ltac unf_pd := unfold compute_lla_difference_d0, compute_lla_difference_d1, compute_lla_difference_d2,
                 perturb_lla_lat, perturb_lla_lon, perturb_lla_alt;
               repeat autounfold with compute_lla_difference_db perturb_lla_db.

Lemma rn_pos lat alt : -1000000 <= alt ->
  0 < 6378137 / sqrt (1 - 66943799901413 / 10000000000000000 * (sin lat * sin lat)) *
      (9933056200098587 / 10000000000000000) /
      (1 - 66943799901413 / 10000000000000000 * (sin lat * sin lat)) + alt.
Proof.
  intro Ha. with_q lat.
  match goal with H : ?q * ?q = _ |- _ => rewrite <- H end.
  assert (q * q <= 1) by (pose proof (sin2_le1 lat); nra).
  assert (q <= 1) by nra.
  assert (6000000 <= 6378137 / q * (9933056200098587 / 10000000000000000) / (q * q)).
  { apply Rmult_le_reg_r with (q * q * q); [nra|].
    replace (6378137 / q * (9933056200098587 / 10000000000000000) / (q * q) * (q * q * q))
      with (6378137 * (9933056200098587 / 10000000000000000)) by (field; lra).
    assert (q * q * q <= 1) by nra. nra. }
  lra.
Qed.

Lemma re_pos lat alt : -1000000 <= alt ->
  0 < 6378137 / sqrt (1 - 66943799901413 / 10000000000000000 * (sin lat * sin lat)) + alt.
Proof.
  intro Ha. with_q lat.
  assert (q * q <= 1) by (pose proof (sin2_le1 lat); nra).
  assert (q <= 1) by nra.
  assert (6378137 <= 6378137 / q).
  { apply Rmult_le_reg_r with q; [lra|]. replace (6378137 / q * q) with 6378137 by (field; lra). nra. }
  lra.
Qed.

(* the mid-point arguments (lat + 0*k + lat)/2 produced by evaluating at d = 0 *)
Ltac clean_mid :=
  repeat match goal with
  | |- context [1 / 2 * (?l + 0 * ?k * ?r + ?l) * ?d] =>
      replace (1 / 2 * (l + 0 * k * r + l) * d) with (l * d)
        by lra
  | |- context [1 / 2 * (?l + 0 / ?k * ?r + ?l) * ?d] =>
      replace (1 / 2 * (l + 0 / k * r + l) * d) with (l * d)
        by (unfold Rdiv; lra)
  | |- context [1 / 2 * (?a - 0 + ?a)] =>
      replace (1 / 2 * (a - 0 + a)) with a by field
  end.

Lemma deriv_at0_of_factor (rho : R -> R) :
  ex_derive rho 0 -> rho 0 = 1 -> is_derive (fun d => d * rho d) 0 1.
Proof.
  intros Hex H0. auto_derive; [exact Hex|]. rewrite H0. ring.
Qed.

Lemma R_meridian_ge phi : 6000000 <= R_meridian A_ E2_ phi.
Proof.
  unfold R_meridian, W2, A_, E2_. with_q phi.
  match goal with H : ?q * ?q = _ |- _ => rewrite <- H end.
  assert (q * q <= 1) by (pose proof (sin2_le1 phi); nra).
  assert (q <= 1) by nra.
  apply Rmult_le_reg_r with (q * q * q); [nra|].
  replace (6378137 * (1 - 66943799901413 / 10000000000000000) / (q * q * q) * (q * q * q))
    with (6378137 * (1 - 66943799901413 / 10000000000000000)) by (field; lra).
  assert (q * q * q <= 1) by nra. nra.
Qed.

Lemma R_transverse_ge phi : 6378137 <= R_transverse A_ E2_ phi.
Proof.
  unfold R_transverse, W2, A_, E2_. with_q phi.
  assert (q * q <= 1) by (pose proof (sin2_le1 phi); nra).
  assert (q <= 1) by nra.
  apply Rmult_le_reg_r with q; [lra|]. replace (6378137 / q * q) with 6378137 by (field; lra). nra.
Qed.

(* facts that close the side conditions [field] leaves when a generated radius (+ altitude) is a denominator *)
Ltac radii_facts q :=
  match goal with Hq : q * q = 1 - _ * (sin ?x * sin ?x) |- _ =>
    let s := constr:(sin x) in
    assert (q * q <= 1) by (pose proof (sin2_le1 x); nra);
    assert (q <= 1) by nra;
    assert (0 < q * q * q) by (apply Rmult_lt_0_compat; nra);
    assert (q * q * q <= 1) by nra;
    assert (10000000000000000 - 66943799901413 * (s * s) = 10000000000000000 * (q * q)) by lra
  end.

(* close the conjunction of side conditions left by [field] in the characterising lemmas below *)
Ltac radii_side q :=
  repeat split; try apply PI_neq0; try lra;
  try match goal with E : _ = 10000000000000000 * (q * q) |- _ => rewrite ?E end;
  apply Rgt_not_eq; nra.

(** the generated perturb_lla / compute_lla_difference in terms of the specification radii *)
Lemma perturb_lla_char lat lon alt d0 d1 d2 :
  -90 < lat < 90 -> -6000000 < alt ->
  let phi := lat * (PI / 180) in
  perturb_lla_lat lat lon alt d0 d1 d2 = lat + d0 * (/ (R_meridian A_ E2_ phi + alt) * (180 / PI)) /\
  perturb_lla_lon lat lon alt d0 d1 d2 =
    lon + d1 * (/ ((R_transverse A_ E2_ phi + alt) * cos phi) * (180 / PI)) /\
  perturb_lla_alt lat lon alt d0 d1 d2 = alt - d2.
Proof.
  intros Hlat Halt. cbv zeta.
  unfold perturb_lla_lat, perturb_lla_lon, perturb_lla_alt. repeat autounfold with perturb_lla_db.
  unfold R_meridian, R_transverse, W2, A_, E2_. canon.
  rewrite ?(sqrt_1msin2 (lat * (PI/180))) by (apply cos_d2r_nonneg; lra).
  pose proof (cos_d2r_pos lat Hlat) as Hc.
  set (phi := lat * (PI/180)) in *. with_q phi. radii_facts q.
  split; [|split]; [field; radii_side q | field; radii_side q | ring].
Qed.

Lemma lla_difference_char lat1 lon1 alt1 lat2 lon2 alt2 :
  let phim := 1 / 2 * (lat1 + lat2) * (PI / 180) in let altm := 1 / 2 * (alt1 + alt2) in
  compute_lla_difference_d0 lat1 lon1 alt1 lat2 lon2 alt2 =
    (lat1 - lat2) * (PI / 180) * (R_meridian A_ E2_ phim + altm) /\
  compute_lla_difference_d1 lat1 lon1 alt1 lat2 lon2 alt2 =
    (lon1 - lon2) * (PI / 180) * ((R_transverse A_ E2_ phim + altm) * sqrt (1 - sin phim * sin phim)) /\
  compute_lla_difference_d2 lat1 lon1 alt1 lat2 lon2 alt2 = - (alt1 - alt2).
Proof.
  cbv zeta. unfold compute_lla_difference_d0, compute_lla_difference_d1, compute_lla_difference_d2.
  repeat autounfold with compute_lla_difference_db.
  unfold R_meridian, R_transverse, W2, A_, E2_.
  canon_angle (1 / 2 * (lat1 + lat2) * (PI / 180)). canon.
  set (phim := 1 / 2 * (lat1 + lat2) * (PI / 180)). with_q phim.
  split; [|split]; [field; lra | field; lra | ring].
Qed.

Lemma R_meridian_ex_derive (g : R -> R) d : ex_derive g d -> ex_derive (fun t => R_meridian A_ E2_ (g t)) d.
Proof.
  intro Hg. unfold R_meridian, W2, A_, E2_.
  pose proof (W_pos' (g d)) as HW. pose proof (sqrtW_pos (g d)) as HQ.
  auto_derive. fold_minus. repeat split; auto; try lra. apply Rgt_not_eq. nra.
Qed.

Lemma R_transverse_ex_derive (g : R -> R) d : ex_derive g d -> ex_derive (fun t => R_transverse A_ E2_ (g t)) d.
Proof.
  intro Hg. unfold R_transverse, W2, A_, E2_.
  pose proof (W_pos' (g d)) as HW. pose proof (sqrtW_pos (g d)) as HQ.
  auto_derive. fold_minus. repeat split; auto; lra.
Qed.

Ltac ring_R := match goal with |- @eq _ ?a ?b => change (@eq R a b) end; ring.

Lemma perturb_diff_first_order lat lon alt :
  -90 < lat < 90 -> -1000000 <= alt ->
  is_derive (fun d => compute_lla_difference_d0 (perturb_lla_lat lat lon alt d 0 0)
                        (perturb_lla_lon lat lon alt d 0 0) (perturb_lla_alt lat lon alt d 0 0)
                        lat lon alt) 0 1 /\
  is_derive (fun d => compute_lla_difference_d1 (perturb_lla_lat lat lon alt 0 d 0)
                        (perturb_lla_lon lat lon alt 0 d 0) (perturb_lla_alt lat lon alt 0 d 0)
                        lat lon alt) 0 1 /\
  is_derive (fun d => compute_lla_difference_d2 (perturb_lla_lat lat lon alt 0 0 d)
                        (perturb_lla_lon lat lon alt 0 0 d) (perturb_lla_alt lat lon alt 0 0 d)
                        lat lon alt) 0 1.
Proof.
  intros Hlat Halt.
  assert (Halt' : -6000000 < alt) by lra.
  set (phi := lat * (PI / 180)).
  pose proof (R_meridian_ge phi) as HM. pose proof (R_transverse_ge phi) as HT.
  pose proof (cos_d2r_pos lat Hlat) as Hcos. fold phi in Hcos.
  pose proof PI_RGT_0 as Hpi.
  set (cn := / (R_meridian A_ E2_ phi + alt) * (180 / PI)).
  set (ce := / ((R_transverse A_ E2_ phi + alt) * cos phi) * (180 / PI)).
  assert (Hs : sqrt (1 - sin phi * sin phi) = cos phi) by (apply sqrt_1msin2; lra).
  split; [|split].
  - (* north: d -> d * rho d with rho 0 = 1 *)
    apply (is_derive_ext (fun d => d * (cn * (PI / 180) *
             (R_meridian A_ E2_ (1 / 2 * (lat + d * cn + lat) * (PI / 180)) + 1 / 2 * (alt - 0 + alt))))).
    { intro d. destruct (perturb_lla_char lat lon alt d 0 0 Hlat Halt') as [P1 [P2 P3]]. cbv zeta in *.
      fold phi cn ce in P1, P2. rewrite P1, P2, P3.
      destruct (lla_difference_char (lat + d * cn) (lon + 0 * ce) (alt - 0) lat lon alt) as [E0 _].
      cbv zeta in E0. rewrite E0. ring_R. }
    apply deriv_at0_of_factor.
    + apply ex_derive_mult; [apply ex_derive_const|].
      apply @ex_derive_plus; [|apply ex_derive_const].
      apply (R_meridian_ex_derive (fun d => 1 / 2 * (lat + d * cn + lat) * (PI / 180))). auto_derive. exact I.
    + replace (1 / 2 * (lat + 0 * cn + lat) * (PI / 180)) with phi by (unfold phi; field).
      replace (1 / 2 * (alt - 0 + alt)) with alt by field.
      unfold cn. field. split; lra.
  - apply (is_derive_ext (fun d => d * (ce * (PI / 180) *
             ((R_transverse A_ E2_ (1 / 2 * (lat + lat) * (PI / 180)) + 1 / 2 * (alt - 0 + alt)) *
              sqrt (1 - sin (1 / 2 * (lat + lat) * (PI / 180)) * sin (1 / 2 * (lat + lat) * (PI / 180))))))).
    { intro d. destruct (perturb_lla_char lat lon alt 0 d 0 Hlat Halt') as [P1 [P2 P3]]. cbv zeta in *.
      fold phi cn ce in P1, P2. rewrite P1, P2, P3.
      destruct (lla_difference_char (lat + 0 * cn) (lon + d * ce) (alt - 0) lat lon alt) as [_ [E1 _]].
      cbv zeta in E1. rewrite E1.
      replace (lat + 0 * cn + lat) with (lat + lat) by ring. ring_R. }
    apply deriv_at0_of_factor.
    + apply ex_derive_const.
    + replace (1 / 2 * (lat + lat) * (PI / 180)) with phi by (unfold phi; field).
      replace (1 / 2 * (alt - 0 + alt)) with alt by field.
      rewrite Hs. unfold ce. field. repeat split; lra.
  - apply (is_derive_ext (fun d => d)).
    { intro d. destruct (perturb_lla_char lat lon alt 0 0 d Hlat Halt') as [P1 [P2 P3]]. cbv zeta in *.
      rewrite P1, P2, P3.
      match goal with |- _ = compute_lla_difference_d2 ?a ?b ?c ?d' ?e ?f =>
        destruct (lla_difference_char a b c d' e f) as [_ [_ E2]] end.
      rewrite E2. lra. }
    auto_derive; [exact I|ring_R].
Qed.

(** ** 5. Gravity, gravitation, Earth rate: one field in all representations *)

Ltac unf_grav := unfold gravity_g, nb_gravity_g, gravity_n_g0, gravity_n_g1, gravity_n_g2;
                 repeat autounfold with gravity_db nb_gravity_db gravity_n_db; canon_W.

(* the three generated copies of the gravity magnitude against one written formula (Somigliana, free-air) *)
Definition gravity_spec (lat alt : R) : R :=
  GE_ * (1 + FG_ * (sin (lat * (PI / 180)) * sin (lat * (PI / 180)))) /
  sqrt (1 - 66943799901413 / 10000000000000000 * (sin (lat * (PI / 180)) * sin (lat * (PI / 180)))) *
  (1 - 2 * alt / A_).

Lemma gravity_char lat alt :
  gravity_g lat alt = gravity_spec lat alt /\ nb_gravity_g lat alt = gravity_spec lat alt /\
  gravity_n_g2 lat alt = gravity_spec lat alt.
Proof.
  unfold gravity_spec, GE_, FG_, A_. unf_grav. canon.
  set (phi := lat * (PI/180)). with_q phi. repeat split; field; lra.
Qed.

Lemma gravity_copies_equal lat alt : nb_gravity_g lat alt = gravity_g lat alt.
Proof. destruct (gravity_char lat alt) as [E1 [E2 _]]. rewrite E1, E2. reflexivity. Qed.

Lemma gravity_n_is_down lat alt :
  gravity_n_g0 lat alt = 0 /\ gravity_n_g1 lat alt = 0 /\ gravity_n_g2 lat alt = gravity_g lat alt.
Proof.
  destruct (gravity_char lat alt) as [E1 [_ E3]]. rewrite E1, E3.
  unfold gravity_n_g0, gravity_n_g1. repeat split; ring.
Qed.

Lemma neg_d2r lat : - lat * (PI / 180) = - (lat * (PI / 180)).
Proof. ring. Qed.

Lemma gravity_even lat alt : gravity_g (- lat) alt = gravity_g lat alt.
Proof.
  rewrite (proj1 (gravity_char (- lat) alt)), (proj1 (gravity_char lat alt)).
  unfold gravity_spec. rewrite neg_d2r, sin_neg.
  replace (- sin (lat * (PI / 180)) * - sin (lat * (PI / 180)))
    with (sin (lat * (PI / 180)) * sin (lat * (PI / 180))) by ring.
  reflexivity.
Qed.

Lemma gravity_positive lat alt : alt < 3000000 -> 0 < gravity_g lat alt.
Proof.
  intro Ha. rewrite (proj1 (gravity_char lat alt)). unfold gravity_spec, GE_, FG_, A_.
  set (phi := lat * (PI/180)). with_q phi.
  pose proof (sin2_le1 phi). assert (0 <= sin phi * sin phi) by nra.
  apply Rmult_lt_0_compat; [apply Rdiv_lt_0_compat; [nra|lra]|lra].
Qed.

Ltac unf_rate := unfold rate_n_w0, rate_n_w1, rate_n_w2; repeat autounfold with rate_n_db.

Lemma rate_n_parity lat :
  rate_n_w0 (- lat) = rate_n_w0 lat /\ rate_n_w1 (- lat) = 0 /\ rate_n_w2 (- lat) = - rate_n_w2 lat.
Proof.
  unf_rate. rewrite neg_d2r, cos_neg, sin_neg. repeat split; ring.
Qed.

(** Earth rate in NED is the Earth axis (0,0,RATE) of ECEF seen through mat_en^T. *)
Lemma rate_n_is_axis_in_ned lat lon :
  rate_n_w0 lat = mat_en_from_ll_m20 lat lon * RATE_ /\
  rate_n_w1 lat = mat_en_from_ll_m21 lat lon * RATE_ /\
  rate_n_w2 lat = mat_en_from_ll_m22 lat lon * RATE_.
Proof.
  unf_rate. unf_en. rewrite cos_m90, sin_m90. unfold RATE_. repeat split; ring.
Qed.

Lemma ecef_parity lat lon alt :
  lla_to_ecef_r0 (- lat) lon alt = lla_to_ecef_r0 lat lon alt /\
  lla_to_ecef_r1 (- lat) lon alt = lla_to_ecef_r1 lat lon alt /\
  lla_to_ecef_r2 (- lat) lon alt = - lla_to_ecef_r2 lat lon alt.
Proof.
  unf_ecef. rewrite !neg_d2r, !sin_neg, !cos_neg. canon.
  repeat split; ring.
Qed.

Ltac unf_gravitation := unfold gravitation_ecef_g0, gravitation_ecef_g1, gravitation_ecef_g2;
                        repeat autounfold with gravitation_ecef_db; canon_W.

(** gravitation = gravity (g along "down") minus centrifugal acceleration w^2 (x, y, 0). *)
Lemma gravitation_is_gravity_minus_centrifugal lat lon alt :
  -90 <= lat <= 90 ->
  let x := lla_to_ecef_r0 lat lon alt in let y := lla_to_ecef_r1 lat lon alt in
  let z := lla_to_ecef_r2 lat lon alt in
  gravitation_ecef_g0 lat lon alt =
    mat_en_from_ll_m02 lat lon * gravity_g lat alt - centrifugal_x RATE_ x y z /\
  gravitation_ecef_g1 lat lon alt =
    mat_en_from_ll_m12 lat lon * gravity_g lat alt - centrifugal_y RATE_ x y z /\
  gravitation_ecef_g2 lat lon alt =
    mat_en_from_ll_m22 lat lon * gravity_g lat alt - centrifugal_z RATE_ x y z.
Proof.
  intros Hlat. cbv zeta. unfold centrifugal_x, centrifugal_y, centrifugal_z, RATE_.
  unf_gravitation. unf_grav. unf_en. unf_ecef.
  rewrite !cos_m90, !sin_m90. canon.
  rewrite (sqrt_1msin2 (lat * (PI/180))) by (apply cos_d2r_nonneg; exact Hlat).
  set (phi := lat * (PI/180)). set (lam := lon * (PI/180)).
  assert (Hp : sin phi * sin phi = 1 - cos phi * cos phi) by (pose proof (sc1 phi); lra).
  with_q phi.
  repeat split; field_simplify_eq; try lra; ring [Hp].
Qed.
