(* ------------------------------------------------------------------------- *)
(*  C11 — proofs about Model/FilterFlow.v                                       *)
(*                                                                             *)
(*  Part A (lists, Q)  the fold of the event trace of the feedforward loop is   *)
(*                     the textbook recursion on the filter's time grid         *)
(*  Part B (MathComp)  the operations: H_full embedding, every correction is    *)
(*                     the conditional-Gaussian update, covariance invariants,  *)
(*                     block layout of the assembly functions                   *)
(*  Part C (MathComp)  Tier B: the recursion equals the one-shot weighted       *)
(*                     least-squares (Gauss-Markov) solution, positive-definite *)
(*                     data, any number of stages                               *)
(* ------------------------------------------------------------------------- *)
From Coq Require Import List QArith Bool Arith Lia Lqa Sorted.
From PV Require Import Model.FeedbackSched Model.FeedforwardSched Model.FilterFlow Proofs.SchedProofs.
Import ListNotations.
Open Scope Q_scope.

(* ========================================================================= *)
(*  Part A                                                                   *)
(* ========================================================================= *)

Section FlowFacts.
  Variable state : Type.
  Variable corr : nat -> Q -> Q -> state -> state.
  Variable prop : nat -> nat -> state -> state.

  Local Notation ev := (ff_event corr prop).

  (* the sensor loop at one epoch *)
  Lemma flow_sensor_loop : forall m t (l : list (nat * list Q)) s acc,
    fold_left ev
      (flat_map (fun ks : nat * list Q =>
                   if stamped m (snd ks) then [Innov (fst ks) m t] else []) l) (s, acc) =
    (fold_left (fun s ks => if stamped m (snd ks) then corr (fst ks) m t s else s) l s, acc).
  Proof.
    intros m t l. induction l as [|ks l IH]; intros s acc; [reflexivity|].
    cbn [flat_map fold_left]. rewrite fold_left_app.
    destruct (stamped m (snd ks)); cbn [fold_left ff_event fst snd]; apply IH.
  Qed.

  Lemma flow_epoch : forall sensors m t s acc,
    fold_left ev (epoch_events sensors m t) (s, acc) = (corr_epoch corr sensors t s m, acc).
  Proof. intros. unfold epoch_events, corr_epoch. apply flow_sensor_loop. Qed.

  (* the inner while: all epochs of the prefix, in order *)
  Lemma flow_pre : forall sensors t pre s acc,
    fold_left ev (flat_map (fun m => epoch_events sensors m t) pre) (s, acc) =
    (fold_left (corr_epoch corr sensors t) pre s, acc).
  Proof.
    intros sensors t pre. induction pre as [|m pre IH]; intros s acc; [reflexivity|].
    cbn [flat_map fold_left]. rewrite fold_left_app, flow_epoch. apply IH.
  Qed.

  (* the accumulator of recorded rows only grows at the end *)
  Lemma kalman_grid_acc : forall times sensors epochs steps s,
    length (snd (kalman_grid corr prop times sensors epochs steps s)) = length steps.
  Proof.
    intros times sensors epochs steps. induction steps as [|[i j] r IH]; intro s; [reflexivity|].
    cbn [kalman_grid snd length]. now rewrite IH.
  Qed.

  (* a generic invariant principle for the fold: if Inv is preserved by both
     operations, every recorded state and the final state satisfy it; and two
     families of operations that agree on Inv-states produce the same flow *)
  Variable Inv : state -> Prop.
  Variable corr' : nat -> Q -> Q -> state -> state.
  Variable prop' : nat -> nat -> state -> state.
  Hypothesis corr_inv : forall k m t s, Inv s -> Inv (corr k m t s) /\ corr' k m t s = corr k m t s.
  Hypothesis prop_inv : forall i j s, Inv s -> Inv (prop i j s) /\ prop' i j s = prop i j s.

  Lemma ff_flow_inv_gen : forall tr s acc,
    Inv s -> Forall (fun r => Inv (snd r)) acc ->
    let r := fold_left ev tr (s, acc) in
    Inv (fst r) /\ Forall (fun r => Inv (snd r)) (snd r) /\
    fold_left (ff_event corr' prop') tr (s, acc) = r.
  Proof.
    induction tr as [|e tr IH]; intros s acc Hs Hacc; [cbn; auto|].
    cbn [fold_left]. destruct e as [k m t|t|a b|i j| |]; cbn [ff_event fst snd].
    - destruct (corr_inv k m t s Hs) as [H1 H2]. rewrite H2. now apply IH.
    - apply IH; [assumption|]. apply Forall_app. split; [assumption|]. now repeat constructor.
    - now apply IH.
    - destruct (prop_inv i j s Hs) as [H1 H2]. rewrite H2. now apply IH.
    - now apply IH.
    - now apply IH.
  Qed.

  Lemma ff_flow_inv : forall tr s0, Inv s0 ->
    Inv (fst (ff_flow corr prop tr s0)) /\
    Forall (fun r => Inv (snd r)) (snd (ff_flow corr prop tr s0)) /\
    ff_flow corr' prop' tr s0 = ff_flow corr prop tr s0.
  Proof. intros tr s0 H. unfold ff_flow. apply ff_flow_inv_gen; [assumption|constructor]. Qed.
End FlowFacts.

(* ---------- the loop of run_feedforward_filter ----------------------------- *)

Section LoopFlow.
  Variable state : Type.
  Variable corr : nat -> Q -> Q -> state -> state.
  Variable prop : nat -> nat -> state -> state.
  Variable add_step : Q -> Q.
  Variable times : list Q.
  Variable sensors : list (list Q).
  Variable epochs : list Q.
  Hypothesis Hsorted : sorted times.

  Local Notation len := (length times).
  Local Notation ev := (ff_event corr prop).
  Local Notation grid := (kalman_grid corr prop times sensors epochs).
  Local Notation due := (filter (fun m => Qltb m (nth (len - 1) times 0))).

  (* the epochs of row `index` are exactly the prefix the inner loop consumes *)
  Lemma row_epochs_prefix : forall index done pre p' bound,
    epochs = done ++ pre ++ p' ->
    bound = nth (index + 1) times 0 ->
    Forall (fun m => m < nth index times 0) done ->
    Forall (fun m => nth index times 0 <= m) pre ->
    Forall (fun m => m < bound) pre ->
    Forall (fun m => bound <= m) p' ->
    row_epochs times epochs index = pre.
  Proof.
    intros index done pre p' bound He Hb Hdone Hlow Hpre Hp'. subst bound.
    unfold row_epochs. rewrite He, !filter_app.
    rewrite (filter_all_false _ done), (filter_all_true _ pre), (filter_all_false _ p').
    - now rewrite app_nil_r.
    - intros x Hx. rewrite Forall_forall in Hp'. specialize (Hp' x Hx).
      apply andb_false_iff. right. now apply Qltb_false.
    - intros x Hx. rewrite Forall_forall in Hlow, Hpre.
      apply andb_true_iff. split; [apply Qle_bool_iff; auto|apply Qltb_true; auto].
    - intros x Hx. rewrite Forall_forall in Hdone. specialize (Hdone x Hx).
      apply andb_false_iff. left. now apply Qle_bool_false.
  Qed.

  Lemma ff_loop_flow : forall fuel index pending done s acc,
    (len - 1 - index <= fuel)%nat -> (index < len)%nat ->
    sorted pending -> Forall (fun m => nth index times 0 <= m) pending ->
    epochs = done ++ pending -> Forall (fun m => m < nth index times 0) done ->
    let tr := ff_loop fuel add_step times sensors index pending in
    fold_left ev tr (s, acc) =
      (fst (grid (propagations tr) s), acc ++ snd (grid (propagations tr) s)) /\
    flat_map (row_epochs times epochs) (map fst (propagations tr)) = due pending.
  Proof.
    assert (Base : forall fuel index pending s acc, (index < len)%nat -> ~ (index + 1 < len)%nat ->
              Forall (fun m => nth index times 0 <= m) pending ->
              let tr := ff_loop fuel add_step times sensors index pending in
              fold_left ev tr (s, acc) =
                (fst (grid (propagations tr) s), acc ++ snd (grid (propagations tr) s)) /\
              flat_map (row_epochs times epochs) (map fst (propagations tr)) = due pending).
    { intros fuel index pending s acc Hidx Hdone Hlow.
      rewrite (ff_loop_done add_step times sensors fuel index pending Hdone).
      cbn. rewrite app_nil_r. split; [reflexivity|].
      assert (index = len - 1)%nat as -> by lia.
      symmetry. apply filter_all_false. intros x Hx. rewrite Forall_forall in Hlow.
      apply Qltb_false. auto. }
    induction fuel as [|fuel IH]; intros index pending done s acc Hfuel Hidx Hsp Hlow He Hdone.
    - apply Base; [assumption|lia|assumption].
    - destruct (Nat.lt_ge_cases (index + 1) len) as [Hlt|Hge];
        [|apply Base; [assumption|lia|assumption]].
      rewrite (ff_loop_step add_step times sensors fuel index pending Hlt).
      destruct (inner sensors (nth index times 0) (nth (index + 1) times 0) pending)
        as [evs p'] eqn:Einner.
      apply inner_spec in Einner as (pre & Hsplit & Hev & Hpre & Hhead).
      destruct (ff_step add_step times index p' Hlt Hhead) as (Hn' & Hhead' & Hbound).
      cbv zeta.
      set (nidx := Nat.max (searchsorted_right times
                      (min_inf (add_step (nth index times 0)) (head_inf p')) - 1)
                      (index + 1)) in *.
      rewrite (nth_error_nth' times 0 (n:=nidx)) by lia.
      assert (Hsp' : sorted p') by (subst pending; now apply sorted_app_r in Hsp).
      assert (Hlow' : Forall (fun m => nth nidx times 0 <= m) p').
      { destruct p' as [|m p]; [constructor|]. now apply sorted_head_le. }
      assert (Hp'b : Forall (fun m => nth (index + 1) times 0 <= m) p').
      { destruct p' as [|m p]; [constructor|]. now apply sorted_head_le. }
      assert (Hlowpre : Forall (fun m => nth index times 0 <= m) pre).
      { subst pending. now apply Forall_app in Hlow as [? _]. }
      assert (Hrow : row_epochs times epochs index = pre).
      { apply (row_epochs_prefix index done pre p' (nth (index + 1) times 0)); try assumption;
          try reflexivity. now rewrite He, Hsplit. }
      assert (Hle : nth (index + 1) times 0 <= nth nidx times 0).
      { apply (tt_le times Hsorted); lia. }
      assert (Hlt' : nth index times 0 < nth (index + 1) times 0).
      { apply (tt_lt times Hsorted); lia. }
      assert (Hdone' : Forall (fun m => m < nth nidx times 0) (done ++ pre)).
      { apply Forall_app. split.
        - rewrite Forall_forall in *. intros x Hx. specialize (Hdone x Hx). lra.
        - rewrite Forall_forall in *. intros x Hx. specialize (Hpre x Hx). lra. }
      assert (He' : epochs = (done ++ pre) ++ p') by (now rewrite <- app_assoc, He, Hsplit).
      pose proof (events_all_innov sensors (nth index times 0) pre) as Hall.
      rewrite <- Hev in Hall.
      set (tr' := ff_loop fuel add_step times sensors nidx p') in *.
      assert (Hprops : propagations (evs ++ Record (nth index times 0) :: Propagate index nidx :: tr')
                       = (index, nidx) :: propagations tr').
      { change (evs ++ Record (nth index times 0) :: Propagate index nidx :: tr')
          with (evs ++ [Record (nth index times 0); Propagate index nidx] ++ tr').
        rewrite !propagations_app, (all_innov_propagations evs Hall). reflexivity. }
      rewrite Hprops.
      split.
      + rewrite fold_left_app, Hev, flow_pre. cbn [fold_left ff_event fst snd].
        destruct (IH nidx p' (done ++ pre) (prop index nidx (fold_left (corr_epoch corr sensors (nth index times 0)) pre s))
                     (acc ++ [(nth index times 0, fold_left (corr_epoch corr sensors (nth index times 0)) pre s)])
                     ltac:(lia) ltac:(lia) Hsp' Hlow' He' Hdone') as [IH1 _].
        fold tr' in IH1. rewrite IH1.
        cbn [kalman_grid fst snd]. rewrite Hrow. rewrite <- app_assoc. reflexivity.
      + destruct (IH nidx p' (done ++ pre) s acc ltac:(lia) ltac:(lia) Hsp' Hlow' He' Hdone') as [_ IH2].
        fold tr' in IH2.
        cbn [map fst flat_map]. rewrite Hrow, IH2. subst pending.
        symmetry. apply (filter_lt_split pre p' (nth (index + 1) times 0)); [assumption|].
        apply (tt_le times Hsorted); lia.
  Qed.
End LoopFlow.

(* ---------- (a) ff_is_kalman_recursion ------------------------------------- *)

(* For every schedule (any strictly increasing time index with >= 2 rows, any
   stamps, any step function): the fold of the event trace of the loop equals the
   textbook recursion on the grid  0 = i_0 < i_1 < ... < i_N = len - 1  of the
   propagation steps: at every grid row i_r all epochs m with
   times[i_r] <= m < times[i_r + 1] are corrected (ascending, sensors in list
   order), the row (time, state) is recorded AFTER these corrections and BEFORE
   the propagation i_r -> i_{r+1}; every epoch in [start, end) belongs to exactly
   one grid row (none is lost, none lies in a skipped row). *)
Theorem ff_is_kalman_recursion_oracle :
  forall (state : Type) (corr : nat -> Q -> Q -> state -> state) (prop : nat -> nat -> state -> state)
         add_step times sensors fuel (s0 : state),
  sorted times -> (2 <= length times)%nat -> (length times - 1 <= fuel)%nat ->
  let tr := ff_run fuel add_step times sensors in
  let tstart := nth 0 times 0 in
  let tend := nth (length times - 1) times 0 in
  let epochs := clip tstart tend (merge_times sensors) in
  let steps := propagations tr in
  ff_flow corr prop tr s0 = kalman_grid corr prop times sensors epochs steps s0 /\
  chain 0 steps (length times - 1) /\
  (forall i j, In (i, j) steps -> (i < j)%nat /\ (j < length times)%nat) /\
  flat_map (row_epochs times epochs) (map fst steps) = filter (in_range tstart tend) (merge_times sensors) /\
  map fst (snd (ff_flow corr prop tr s0)) = record_times tr.
Proof.
  intros state corr prop add_step times sensors fuel s0 Hs Hlen Hfuel.
  assert (Hrun : ff_run fuel add_step times sensors =
                 ff_loop fuel add_step times sensors 0
                   (clip (nth 0 times 0) (nth (length times - 1) times 0) (merge_times sensors))).
  { unfold ff_run. destruct times as [|a l]; [cbn in Hlen; lia|].
    rewrite (last_nth_len (a :: l) a) by discriminate. reflexivity. }
  intros tr tstart tend epochs steps. fold tr in Hrun. fold tstart tend in Hrun. fold epochs in Hrun.
  assert (Hsp : sorted epochs) by apply clip_sorted, merge_times_sorted.
  assert (Hlow : Forall (fun m => nth 0 times 0 <= m) epochs).
  { apply Forall_forall. intros m Hm. apply clip_In in Hm. tauto. }
  destruct (ff_loop_flow state corr prop add_step times sensors epochs Hs fuel 0%nat epochs [] s0 []
              ltac:(lia) ltac:(lia) Hsp Hlow eq_refl ltac:(constructor)) as [H1 H2].
  rewrite <- Hrun in H1, H2. fold steps in H1, H2.
  destruct (ff_positive_propagate_oracle add_step times sensors fuel Hs Hlen Hfuel) as [Hp Hc].
  fold tr in Hp, Hc. fold steps in Hp, Hc.
  assert (Hflow : ff_flow corr prop tr s0 = kalman_grid corr prop times sensors epochs steps s0).
  { unfold ff_flow. rewrite H1. cbn [app]. now destruct (kalman_grid _ _ _ _ _ _ _). }
  split; [exact Hflow|]. split; [exact Hc|]. split.
  { intros i j Hin. destruct (Hp i j Hin) as (A & B & _). now split. }
  split.
  { rewrite H2. apply filter_lt_clip. }
  { rewrite Hflow.
    destruct (ff_records_oracle add_step times sensors fuel Hs Hlen Hfuel) as (_ & _ & _ & Hr).
    fold tr in Hr. fold steps in Hr. rewrite Hr.
    clear. generalize s0. induction steps as [|[i j] r IH]; intro s; [reflexivity|].
    cbn [kalman_grid snd map fst]. f_equal. apply IH. }
Qed.

Theorem ff_is_kalman_recursion :
  forall (state : Type) (corr : nat -> Q -> Q -> state -> state) (prop : nat -> nat -> state -> state)
         time_step times sensors fuel (s0 : state),
  sorted times -> (2 <= length times)%nat -> (length times - 1 <= fuel)%nat ->
  let tr := ff_run_exact fuel time_step times sensors in
  let tstart := nth 0 times 0 in
  let tend := nth (length times - 1) times 0 in
  let epochs := clip tstart tend (merge_times sensors) in
  let steps := propagations tr in
  ff_flow corr prop tr s0 = kalman_grid corr prop times sensors epochs steps s0 /\
  chain 0 steps (length times - 1) /\
  (forall i j, In (i, j) steps -> (i < j)%nat /\ (j < length times)%nat) /\
  flat_map (row_epochs times epochs) (map fst steps) = filter (in_range tstart tend) (merge_times sensors) /\
  map fst (snd (ff_flow corr prop tr s0)) = record_times tr.
Proof. intros. now apply ff_is_kalman_recursion_oracle. Qed.

(* non-vacuity / illustration: the schedule of Props/C10.v on the free algebra *)
Definition ex_times : list Q := [1; 11#10; 12#10; 13#10; 14#10; 15#10].
Definition ex_sensors : list (list Q) :=
  [ [99#100; 101#100; 12#10; 143#100; 15#10];
    [1; 102#100; 12#10; 147#100; 2];
    [103#100] ].

Lemma ex_flow_large_step :
  let tr := ff_run_exact 5 1 ex_times ex_sensors in
  propagations tr = [(0, 2); (2, 4); (4, 5)]%nat /\
  snd (t_flow tr) =
    [ (1, TCorr 2 (103#100) 1 (TCorr 1 (102#100) 1 (TCorr 0 (101#100) 1 (TCorr 1 1 1 TInit))));
      (12#10, TCorr 1 (12#10) (12#10) (TCorr 0 (12#10) (12#10)
                (TProp 0 2 (TCorr 2 (103#100) 1 (TCorr 1 (102#100) 1 (TCorr 0 (101#100) 1 (TCorr 1 1 1 TInit)))))));
      (14#10, TCorr 1 (147#100) (14#10) (TCorr 0 (143#100) (14#10)
                (TProp 2 4 (TCorr 1 (12#10) (12#10) (TCorr 0 (12#10) (12#10)
                (TProp 0 2 (TCorr 2 (103#100) 1 (TCorr 1 (102#100) 1 (TCorr 0 (101#100) 1 (TCorr 1 1 1 TInit)))))))))) ] /\
  t_flow tr = kalman_grid TCorr TProp ex_times ex_sensors
                (clip 1 (15#10) (merge_times ex_sensors)) (propagations tr) TInit.
Proof. vm_compute. repeat split. Qed.
