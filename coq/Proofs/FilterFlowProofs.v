(* ------------------------------------------------------------------------- *)
(*  C11 — proofs about Model/FilterFlow.v                                       *)
(*                                                                             *)
(*  Part R (reals)     compensated-trajectory formulas traced from the code;  *)
(*                     exact inverse of the error definition (perturb_pva)      *)
(*  Part A (lists, Q)  the fold of the event trace of the feedforward loop is   *)
(*                     the textbook recursion on the filter's time grid         *)
(*  Part B (MathComp)  the operations: H_full embedding, every correction is    *)
(*                     the conditional-Gaussian update, covariance invariants,  *)
(*                     block layout of the assembly functions                   *)
(*  Part C (MathComp)  Tier B: the recursion equals the one-shot weighted       *)
(*  Part D (MathComp)  ... also for SINGULAR process noise Qd = Gam Gam^T (noise-  *)
(*                     parametrised batch problem, Phi invertible)              *)
(*                     least-squares (Gauss-Markov) solution, positive-definite *)
(*                     data, any number of stages                               *)
(* ------------------------------------------------------------------------- *)
(* ------------------------------------------------------------------------- *)
(*  Part R (real numbers): the compensation formulas of                          *)
(*  _compute_feedforward_result, GENERATED in Gen/C11Gen.v from the live function *)
(* ------------------------------------------------------------------------- *)
From Coq Require Import Reals Lra.
From PV Require Import Spec.LibSpecs Gen.Earth Gen.ErrState Gen.C11Gen.

Section Compensation.
Local Open Scope R_scope.
Variables lat lon alt VN VE VD roll pitch heading nlat nalt : R.
Variables t00 t01 t02 t03 t04 t05 t06 t07 t08 t10 t11 t12 t13 t14 t15 t16 t17 t18 t20 t21 t22 t23 t24 t25 t26 t27 t28 t30 t31 t32 t33 t34 t35 t36 t37 t38 t40 t41 t42 t43 t44 t45 t46 t47 t48 t50 t51 t52 t53 t54 t55 t56 t57 t58 t60 t61 t62 t63 t64 t65 t66 t67 t68 t70 t71 t72 t73 t74 t75 t76 t77 t78 t80 t81 t82 t83 t84 t85 t86 t87 t88 : R.
Variables x0 x1 x2 x3 x4 x5 x6 x7 x8 xg xa : R.

(* error_nav = T x  (T = error_model.transform_to_output(trajectory_nominal): metres, m/s, degrees);
   lat -= north / rn * (180/pi), lon -= east / rp * (180/pi), alt += down (down is positive downwards,
   altitude upwards: the computed altitude is LOW by the down error), velocity and rph: minus the error;
   the radii are those of the NOMINAL row; the sensor estimates are the state entries themselves *)
Lemma ffres_formulas :
  ffres_lat lat lon alt VN VE VD roll pitch heading nlat nalt t00 t01 t02 t03 t04 t05 t06 t07 t08 t10 t11 t12 t13 t14 t15 t16 t17 t18 t20 t21 t22 t23 t24 t25 t26 t27 t28 t30 t31 t32 t33 t34 t35 t36 t37 t38 t40 t41 t42 t43 t44 t45 t46 t47 t48 t50 t51 t52 t53 t54 t55 t56 t57 t58 t60 t61 t62 t63 t64 t65 t66 t67 t68 t70 t71 t72 t73 t74 t75 t76 t77 t78 t80 t81 t82 t83 t84 t85 t86 t87 t88 x0 x1 x2 x3 x4 x5 x6 x7 x8 xg xa = lat - (t00 * x0 + t01 * x1 + t02 * x2 + t03 * x3 + t04 * x4 + t05 * x5 + t06 * x6 + t07 * x7 + t08 * x8) / principal_radii_rn nlat nalt * (180 / PI) /\
  ffres_lon lat lon alt VN VE VD roll pitch heading nlat nalt t00 t01 t02 t03 t04 t05 t06 t07 t08 t10 t11 t12 t13 t14 t15 t16 t17 t18 t20 t21 t22 t23 t24 t25 t26 t27 t28 t30 t31 t32 t33 t34 t35 t36 t37 t38 t40 t41 t42 t43 t44 t45 t46 t47 t48 t50 t51 t52 t53 t54 t55 t56 t57 t58 t60 t61 t62 t63 t64 t65 t66 t67 t68 t70 t71 t72 t73 t74 t75 t76 t77 t78 t80 t81 t82 t83 t84 t85 t86 t87 t88 x0 x1 x2 x3 x4 x5 x6 x7 x8 xg xa = lon - (t10 * x0 + t11 * x1 + t12 * x2 + t13 * x3 + t14 * x4 + t15 * x5 + t16 * x6 + t17 * x7 + t18 * x8) / principal_radii_rp nlat nalt * (180 / PI) /\
  ffres_alt lat lon alt VN VE VD roll pitch heading nlat nalt t00 t01 t02 t03 t04 t05 t06 t07 t08 t10 t11 t12 t13 t14 t15 t16 t17 t18 t20 t21 t22 t23 t24 t25 t26 t27 t28 t30 t31 t32 t33 t34 t35 t36 t37 t38 t40 t41 t42 t43 t44 t45 t46 t47 t48 t50 t51 t52 t53 t54 t55 t56 t57 t58 t60 t61 t62 t63 t64 t65 t66 t67 t68 t70 t71 t72 t73 t74 t75 t76 t77 t78 t80 t81 t82 t83 t84 t85 t86 t87 t88 x0 x1 x2 x3 x4 x5 x6 x7 x8 xg xa = alt + (t20 * x0 + t21 * x1 + t22 * x2 + t23 * x3 + t24 * x4 + t25 * x5 + t26 * x6 + t27 * x7 + t28 * x8) /\
  ffres_VN lat lon alt VN VE VD roll pitch heading nlat nalt t00 t01 t02 t03 t04 t05 t06 t07 t08 t10 t11 t12 t13 t14 t15 t16 t17 t18 t20 t21 t22 t23 t24 t25 t26 t27 t28 t30 t31 t32 t33 t34 t35 t36 t37 t38 t40 t41 t42 t43 t44 t45 t46 t47 t48 t50 t51 t52 t53 t54 t55 t56 t57 t58 t60 t61 t62 t63 t64 t65 t66 t67 t68 t70 t71 t72 t73 t74 t75 t76 t77 t78 t80 t81 t82 t83 t84 t85 t86 t87 t88 x0 x1 x2 x3 x4 x5 x6 x7 x8 xg xa = VN - (t30 * x0 + t31 * x1 + t32 * x2 + t33 * x3 + t34 * x4 + t35 * x5 + t36 * x6 + t37 * x7 + t38 * x8) /\
  ffres_VE lat lon alt VN VE VD roll pitch heading nlat nalt t00 t01 t02 t03 t04 t05 t06 t07 t08 t10 t11 t12 t13 t14 t15 t16 t17 t18 t20 t21 t22 t23 t24 t25 t26 t27 t28 t30 t31 t32 t33 t34 t35 t36 t37 t38 t40 t41 t42 t43 t44 t45 t46 t47 t48 t50 t51 t52 t53 t54 t55 t56 t57 t58 t60 t61 t62 t63 t64 t65 t66 t67 t68 t70 t71 t72 t73 t74 t75 t76 t77 t78 t80 t81 t82 t83 t84 t85 t86 t87 t88 x0 x1 x2 x3 x4 x5 x6 x7 x8 xg xa = VE - (t40 * x0 + t41 * x1 + t42 * x2 + t43 * x3 + t44 * x4 + t45 * x5 + t46 * x6 + t47 * x7 + t48 * x8) /\
  ffres_VD lat lon alt VN VE VD roll pitch heading nlat nalt t00 t01 t02 t03 t04 t05 t06 t07 t08 t10 t11 t12 t13 t14 t15 t16 t17 t18 t20 t21 t22 t23 t24 t25 t26 t27 t28 t30 t31 t32 t33 t34 t35 t36 t37 t38 t40 t41 t42 t43 t44 t45 t46 t47 t48 t50 t51 t52 t53 t54 t55 t56 t57 t58 t60 t61 t62 t63 t64 t65 t66 t67 t68 t70 t71 t72 t73 t74 t75 t76 t77 t78 t80 t81 t82 t83 t84 t85 t86 t87 t88 x0 x1 x2 x3 x4 x5 x6 x7 x8 xg xa = VD - (t50 * x0 + t51 * x1 + t52 * x2 + t53 * x3 + t54 * x4 + t55 * x5 + t56 * x6 + t57 * x7 + t58 * x8) /\
  ffres_roll lat lon alt VN VE VD roll pitch heading nlat nalt t00 t01 t02 t03 t04 t05 t06 t07 t08 t10 t11 t12 t13 t14 t15 t16 t17 t18 t20 t21 t22 t23 t24 t25 t26 t27 t28 t30 t31 t32 t33 t34 t35 t36 t37 t38 t40 t41 t42 t43 t44 t45 t46 t47 t48 t50 t51 t52 t53 t54 t55 t56 t57 t58 t60 t61 t62 t63 t64 t65 t66 t67 t68 t70 t71 t72 t73 t74 t75 t76 t77 t78 t80 t81 t82 t83 t84 t85 t86 t87 t88 x0 x1 x2 x3 x4 x5 x6 x7 x8 xg xa = roll - (t60 * x0 + t61 * x1 + t62 * x2 + t63 * x3 + t64 * x4 + t65 * x5 + t66 * x6 + t67 * x7 + t68 * x8) /\
  ffres_pitch lat lon alt VN VE VD roll pitch heading nlat nalt t00 t01 t02 t03 t04 t05 t06 t07 t08 t10 t11 t12 t13 t14 t15 t16 t17 t18 t20 t21 t22 t23 t24 t25 t26 t27 t28 t30 t31 t32 t33 t34 t35 t36 t37 t38 t40 t41 t42 t43 t44 t45 t46 t47 t48 t50 t51 t52 t53 t54 t55 t56 t57 t58 t60 t61 t62 t63 t64 t65 t66 t67 t68 t70 t71 t72 t73 t74 t75 t76 t77 t78 t80 t81 t82 t83 t84 t85 t86 t87 t88 x0 x1 x2 x3 x4 x5 x6 x7 x8 xg xa = pitch - (t70 * x0 + t71 * x1 + t72 * x2 + t73 * x3 + t74 * x4 + t75 * x5 + t76 * x6 + t77 * x7 + t78 * x8) /\
  ffres_heading lat lon alt VN VE VD roll pitch heading nlat nalt t00 t01 t02 t03 t04 t05 t06 t07 t08 t10 t11 t12 t13 t14 t15 t16 t17 t18 t20 t21 t22 t23 t24 t25 t26 t27 t28 t30 t31 t32 t33 t34 t35 t36 t37 t38 t40 t41 t42 t43 t44 t45 t46 t47 t48 t50 t51 t52 t53 t54 t55 t56 t57 t58 t60 t61 t62 t63 t64 t65 t66 t67 t68 t70 t71 t72 t73 t74 t75 t76 t77 t78 t80 t81 t82 t83 t84 t85 t86 t87 t88 x0 x1 x2 x3 x4 x5 x6 x7 x8 xg xa = heading - (t80 * x0 + t81 * x1 + t82 * x2 + t83 * x3 + t84 * x4 + t85 * x5 + t86 * x6 + t87 * x7 + t88 * x8) /\
  ffres_gyro lat lon alt VN VE VD roll pitch heading nlat nalt t00 t01 t02 t03 t04 t05 t06 t07 t08 t10 t11 t12 t13 t14 t15 t16 t17 t18 t20 t21 t22 t23 t24 t25 t26 t27 t28 t30 t31 t32 t33 t34 t35 t36 t37 t38 t40 t41 t42 t43 t44 t45 t46 t47 t48 t50 t51 t52 t53 t54 t55 t56 t57 t58 t60 t61 t62 t63 t64 t65 t66 t67 t68 t70 t71 t72 t73 t74 t75 t76 t77 t78 t80 t81 t82 t83 t84 t85 t86 t87 t88 x0 x1 x2 x3 x4 x5 x6 x7 x8 xg xa = xg /\
  ffres_accel lat lon alt VN VE VD roll pitch heading nlat nalt t00 t01 t02 t03 t04 t05 t06 t07 t08 t10 t11 t12 t13 t14 t15 t16 t17 t18 t20 t21 t22 t23 t24 t25 t26 t27 t28 t30 t31 t32 t33 t34 t35 t36 t37 t38 t40 t41 t42 t43 t44 t45 t46 t47 t48 t50 t51 t52 t53 t54 t55 t56 t57 t58 t60 t61 t62 t63 t64 t65 t66 t67 t68 t70 t71 t72 t73 t74 t75 t76 t77 t78 t80 t81 t82 t83 t84 t85 t86 t87 t88 x0 x1 x2 x3 x4 x5 x6 x7 x8 xg xa = xa.
Proof.
  unfold ffres_lat, ffres_lon, ffres_alt, ffres_VN, ffres_VE, ffres_VD, ffres_roll, ffres_pitch, ffres_heading,
    ffres_gyro, ffres_accel, principal_radii_rn, principal_radii_rp.
  autounfold with ffres_db principal_radii_db.
  repeat split; first [reflexivity | ring].
Qed.
End Compensation.

Section CompensationInverse.
Local Open Scope R_scope.
Variables lat lon alt VN VE VD roll pitch heading : R.
Variables e0 e1 e2 e3 e4 e5 e6 e7 e8 xg xa : R.

(* The error definition of the library is sim.perturb_pva (traced in Gen/ErrState.v):
   computed = perturb_pva(true, e) with e = (north east down [m], VN VE VD [m/s], roll pitch heading [deg]).
   With the true row as nominal row and error_nav = e (T = identity on the output coordinates) the
   compensation returns the true row EXACTLY: it is the inverse of the error definition in the same
   units and sign conventions.  (With the computed row as nominal row the radii are evaluated at the
   perturbed latitude / altitude: the inverse then holds to first order in e.) *)
Lemma compensation_inverts_perturbation :
  principal_radii_rn lat alt <> 0 -> principal_radii_rp lat alt <> 0 ->
  ffres_lat (perturb_pva_lat lat lon alt VN VE VD roll pitch heading e0 e1 e2 e3 e4 e5 e6 e7 e8) (perturb_pva_lon lat lon alt VN VE VD roll pitch heading e0 e1 e2 e3 e4 e5 e6 e7 e8) (perturb_pva_alt lat lon alt VN VE VD roll pitch heading e0 e1 e2 e3 e4 e5 e6 e7 e8) (perturb_pva_VN lat lon alt VN VE VD roll pitch heading e0 e1 e2 e3 e4 e5 e6 e7 e8) (perturb_pva_VE lat lon alt VN VE VD roll pitch heading e0 e1 e2 e3 e4 e5 e6 e7 e8) (perturb_pva_VD lat lon alt VN VE VD roll pitch heading e0 e1 e2 e3 e4 e5 e6 e7 e8) (perturb_pva_roll lat lon alt VN VE VD roll pitch heading e0 e1 e2 e3 e4 e5 e6 e7 e8) (perturb_pva_pitch lat lon alt VN VE VD roll pitch heading e0 e1 e2 e3 e4 e5 e6 e7 e8) (perturb_pva_heading lat lon alt VN VE VD roll pitch heading e0 e1 e2 e3 e4 e5 e6 e7 e8) lat alt 1 0 0 0 0 0 0 0 0 0 1 0 0 0 0 0 0 0 0 0 1 0 0 0 0 0 0 0 0 0 1 0 0 0 0 0 0 0 0 0 1 0 0 0 0 0 0 0 0 0 1 0 0 0 0 0 0 0 0 0 1 0 0 0 0 0 0 0 0 0 1 0 0 0 0 0 0 0 0 0 1 e0 e1 e2 e3 e4 e5 e6 e7 e8 xg xa = lat /\
  ffres_lon (perturb_pva_lat lat lon alt VN VE VD roll pitch heading e0 e1 e2 e3 e4 e5 e6 e7 e8) (perturb_pva_lon lat lon alt VN VE VD roll pitch heading e0 e1 e2 e3 e4 e5 e6 e7 e8) (perturb_pva_alt lat lon alt VN VE VD roll pitch heading e0 e1 e2 e3 e4 e5 e6 e7 e8) (perturb_pva_VN lat lon alt VN VE VD roll pitch heading e0 e1 e2 e3 e4 e5 e6 e7 e8) (perturb_pva_VE lat lon alt VN VE VD roll pitch heading e0 e1 e2 e3 e4 e5 e6 e7 e8) (perturb_pva_VD lat lon alt VN VE VD roll pitch heading e0 e1 e2 e3 e4 e5 e6 e7 e8) (perturb_pva_roll lat lon alt VN VE VD roll pitch heading e0 e1 e2 e3 e4 e5 e6 e7 e8) (perturb_pva_pitch lat lon alt VN VE VD roll pitch heading e0 e1 e2 e3 e4 e5 e6 e7 e8) (perturb_pva_heading lat lon alt VN VE VD roll pitch heading e0 e1 e2 e3 e4 e5 e6 e7 e8) lat alt 1 0 0 0 0 0 0 0 0 0 1 0 0 0 0 0 0 0 0 0 1 0 0 0 0 0 0 0 0 0 1 0 0 0 0 0 0 0 0 0 1 0 0 0 0 0 0 0 0 0 1 0 0 0 0 0 0 0 0 0 1 0 0 0 0 0 0 0 0 0 1 0 0 0 0 0 0 0 0 0 1 e0 e1 e2 e3 e4 e5 e6 e7 e8 xg xa = lon /\
  ffres_alt (perturb_pva_lat lat lon alt VN VE VD roll pitch heading e0 e1 e2 e3 e4 e5 e6 e7 e8) (perturb_pva_lon lat lon alt VN VE VD roll pitch heading e0 e1 e2 e3 e4 e5 e6 e7 e8) (perturb_pva_alt lat lon alt VN VE VD roll pitch heading e0 e1 e2 e3 e4 e5 e6 e7 e8) (perturb_pva_VN lat lon alt VN VE VD roll pitch heading e0 e1 e2 e3 e4 e5 e6 e7 e8) (perturb_pva_VE lat lon alt VN VE VD roll pitch heading e0 e1 e2 e3 e4 e5 e6 e7 e8) (perturb_pva_VD lat lon alt VN VE VD roll pitch heading e0 e1 e2 e3 e4 e5 e6 e7 e8) (perturb_pva_roll lat lon alt VN VE VD roll pitch heading e0 e1 e2 e3 e4 e5 e6 e7 e8) (perturb_pva_pitch lat lon alt VN VE VD roll pitch heading e0 e1 e2 e3 e4 e5 e6 e7 e8) (perturb_pva_heading lat lon alt VN VE VD roll pitch heading e0 e1 e2 e3 e4 e5 e6 e7 e8) lat alt 1 0 0 0 0 0 0 0 0 0 1 0 0 0 0 0 0 0 0 0 1 0 0 0 0 0 0 0 0 0 1 0 0 0 0 0 0 0 0 0 1 0 0 0 0 0 0 0 0 0 1 0 0 0 0 0 0 0 0 0 1 0 0 0 0 0 0 0 0 0 1 0 0 0 0 0 0 0 0 0 1 e0 e1 e2 e3 e4 e5 e6 e7 e8 xg xa = alt /\
  ffres_VN (perturb_pva_lat lat lon alt VN VE VD roll pitch heading e0 e1 e2 e3 e4 e5 e6 e7 e8) (perturb_pva_lon lat lon alt VN VE VD roll pitch heading e0 e1 e2 e3 e4 e5 e6 e7 e8) (perturb_pva_alt lat lon alt VN VE VD roll pitch heading e0 e1 e2 e3 e4 e5 e6 e7 e8) (perturb_pva_VN lat lon alt VN VE VD roll pitch heading e0 e1 e2 e3 e4 e5 e6 e7 e8) (perturb_pva_VE lat lon alt VN VE VD roll pitch heading e0 e1 e2 e3 e4 e5 e6 e7 e8) (perturb_pva_VD lat lon alt VN VE VD roll pitch heading e0 e1 e2 e3 e4 e5 e6 e7 e8) (perturb_pva_roll lat lon alt VN VE VD roll pitch heading e0 e1 e2 e3 e4 e5 e6 e7 e8) (perturb_pva_pitch lat lon alt VN VE VD roll pitch heading e0 e1 e2 e3 e4 e5 e6 e7 e8) (perturb_pva_heading lat lon alt VN VE VD roll pitch heading e0 e1 e2 e3 e4 e5 e6 e7 e8) lat alt 1 0 0 0 0 0 0 0 0 0 1 0 0 0 0 0 0 0 0 0 1 0 0 0 0 0 0 0 0 0 1 0 0 0 0 0 0 0 0 0 1 0 0 0 0 0 0 0 0 0 1 0 0 0 0 0 0 0 0 0 1 0 0 0 0 0 0 0 0 0 1 0 0 0 0 0 0 0 0 0 1 e0 e1 e2 e3 e4 e5 e6 e7 e8 xg xa = VN /\
  ffres_VE (perturb_pva_lat lat lon alt VN VE VD roll pitch heading e0 e1 e2 e3 e4 e5 e6 e7 e8) (perturb_pva_lon lat lon alt VN VE VD roll pitch heading e0 e1 e2 e3 e4 e5 e6 e7 e8) (perturb_pva_alt lat lon alt VN VE VD roll pitch heading e0 e1 e2 e3 e4 e5 e6 e7 e8) (perturb_pva_VN lat lon alt VN VE VD roll pitch heading e0 e1 e2 e3 e4 e5 e6 e7 e8) (perturb_pva_VE lat lon alt VN VE VD roll pitch heading e0 e1 e2 e3 e4 e5 e6 e7 e8) (perturb_pva_VD lat lon alt VN VE VD roll pitch heading e0 e1 e2 e3 e4 e5 e6 e7 e8) (perturb_pva_roll lat lon alt VN VE VD roll pitch heading e0 e1 e2 e3 e4 e5 e6 e7 e8) (perturb_pva_pitch lat lon alt VN VE VD roll pitch heading e0 e1 e2 e3 e4 e5 e6 e7 e8) (perturb_pva_heading lat lon alt VN VE VD roll pitch heading e0 e1 e2 e3 e4 e5 e6 e7 e8) lat alt 1 0 0 0 0 0 0 0 0 0 1 0 0 0 0 0 0 0 0 0 1 0 0 0 0 0 0 0 0 0 1 0 0 0 0 0 0 0 0 0 1 0 0 0 0 0 0 0 0 0 1 0 0 0 0 0 0 0 0 0 1 0 0 0 0 0 0 0 0 0 1 0 0 0 0 0 0 0 0 0 1 e0 e1 e2 e3 e4 e5 e6 e7 e8 xg xa = VE /\
  ffres_VD (perturb_pva_lat lat lon alt VN VE VD roll pitch heading e0 e1 e2 e3 e4 e5 e6 e7 e8) (perturb_pva_lon lat lon alt VN VE VD roll pitch heading e0 e1 e2 e3 e4 e5 e6 e7 e8) (perturb_pva_alt lat lon alt VN VE VD roll pitch heading e0 e1 e2 e3 e4 e5 e6 e7 e8) (perturb_pva_VN lat lon alt VN VE VD roll pitch heading e0 e1 e2 e3 e4 e5 e6 e7 e8) (perturb_pva_VE lat lon alt VN VE VD roll pitch heading e0 e1 e2 e3 e4 e5 e6 e7 e8) (perturb_pva_VD lat lon alt VN VE VD roll pitch heading e0 e1 e2 e3 e4 e5 e6 e7 e8) (perturb_pva_roll lat lon alt VN VE VD roll pitch heading e0 e1 e2 e3 e4 e5 e6 e7 e8) (perturb_pva_pitch lat lon alt VN VE VD roll pitch heading e0 e1 e2 e3 e4 e5 e6 e7 e8) (perturb_pva_heading lat lon alt VN VE VD roll pitch heading e0 e1 e2 e3 e4 e5 e6 e7 e8) lat alt 1 0 0 0 0 0 0 0 0 0 1 0 0 0 0 0 0 0 0 0 1 0 0 0 0 0 0 0 0 0 1 0 0 0 0 0 0 0 0 0 1 0 0 0 0 0 0 0 0 0 1 0 0 0 0 0 0 0 0 0 1 0 0 0 0 0 0 0 0 0 1 0 0 0 0 0 0 0 0 0 1 e0 e1 e2 e3 e4 e5 e6 e7 e8 xg xa = VD /\
  ffres_roll (perturb_pva_lat lat lon alt VN VE VD roll pitch heading e0 e1 e2 e3 e4 e5 e6 e7 e8) (perturb_pva_lon lat lon alt VN VE VD roll pitch heading e0 e1 e2 e3 e4 e5 e6 e7 e8) (perturb_pva_alt lat lon alt VN VE VD roll pitch heading e0 e1 e2 e3 e4 e5 e6 e7 e8) (perturb_pva_VN lat lon alt VN VE VD roll pitch heading e0 e1 e2 e3 e4 e5 e6 e7 e8) (perturb_pva_VE lat lon alt VN VE VD roll pitch heading e0 e1 e2 e3 e4 e5 e6 e7 e8) (perturb_pva_VD lat lon alt VN VE VD roll pitch heading e0 e1 e2 e3 e4 e5 e6 e7 e8) (perturb_pva_roll lat lon alt VN VE VD roll pitch heading e0 e1 e2 e3 e4 e5 e6 e7 e8) (perturb_pva_pitch lat lon alt VN VE VD roll pitch heading e0 e1 e2 e3 e4 e5 e6 e7 e8) (perturb_pva_heading lat lon alt VN VE VD roll pitch heading e0 e1 e2 e3 e4 e5 e6 e7 e8) lat alt 1 0 0 0 0 0 0 0 0 0 1 0 0 0 0 0 0 0 0 0 1 0 0 0 0 0 0 0 0 0 1 0 0 0 0 0 0 0 0 0 1 0 0 0 0 0 0 0 0 0 1 0 0 0 0 0 0 0 0 0 1 0 0 0 0 0 0 0 0 0 1 0 0 0 0 0 0 0 0 0 1 e0 e1 e2 e3 e4 e5 e6 e7 e8 xg xa = roll /\
  ffres_pitch (perturb_pva_lat lat lon alt VN VE VD roll pitch heading e0 e1 e2 e3 e4 e5 e6 e7 e8) (perturb_pva_lon lat lon alt VN VE VD roll pitch heading e0 e1 e2 e3 e4 e5 e6 e7 e8) (perturb_pva_alt lat lon alt VN VE VD roll pitch heading e0 e1 e2 e3 e4 e5 e6 e7 e8) (perturb_pva_VN lat lon alt VN VE VD roll pitch heading e0 e1 e2 e3 e4 e5 e6 e7 e8) (perturb_pva_VE lat lon alt VN VE VD roll pitch heading e0 e1 e2 e3 e4 e5 e6 e7 e8) (perturb_pva_VD lat lon alt VN VE VD roll pitch heading e0 e1 e2 e3 e4 e5 e6 e7 e8) (perturb_pva_roll lat lon alt VN VE VD roll pitch heading e0 e1 e2 e3 e4 e5 e6 e7 e8) (perturb_pva_pitch lat lon alt VN VE VD roll pitch heading e0 e1 e2 e3 e4 e5 e6 e7 e8) (perturb_pva_heading lat lon alt VN VE VD roll pitch heading e0 e1 e2 e3 e4 e5 e6 e7 e8) lat alt 1 0 0 0 0 0 0 0 0 0 1 0 0 0 0 0 0 0 0 0 1 0 0 0 0 0 0 0 0 0 1 0 0 0 0 0 0 0 0 0 1 0 0 0 0 0 0 0 0 0 1 0 0 0 0 0 0 0 0 0 1 0 0 0 0 0 0 0 0 0 1 0 0 0 0 0 0 0 0 0 1 e0 e1 e2 e3 e4 e5 e6 e7 e8 xg xa = pitch /\
  ffres_heading (perturb_pva_lat lat lon alt VN VE VD roll pitch heading e0 e1 e2 e3 e4 e5 e6 e7 e8) (perturb_pva_lon lat lon alt VN VE VD roll pitch heading e0 e1 e2 e3 e4 e5 e6 e7 e8) (perturb_pva_alt lat lon alt VN VE VD roll pitch heading e0 e1 e2 e3 e4 e5 e6 e7 e8) (perturb_pva_VN lat lon alt VN VE VD roll pitch heading e0 e1 e2 e3 e4 e5 e6 e7 e8) (perturb_pva_VE lat lon alt VN VE VD roll pitch heading e0 e1 e2 e3 e4 e5 e6 e7 e8) (perturb_pva_VD lat lon alt VN VE VD roll pitch heading e0 e1 e2 e3 e4 e5 e6 e7 e8) (perturb_pva_roll lat lon alt VN VE VD roll pitch heading e0 e1 e2 e3 e4 e5 e6 e7 e8) (perturb_pva_pitch lat lon alt VN VE VD roll pitch heading e0 e1 e2 e3 e4 e5 e6 e7 e8) (perturb_pva_heading lat lon alt VN VE VD roll pitch heading e0 e1 e2 e3 e4 e5 e6 e7 e8) lat alt 1 0 0 0 0 0 0 0 0 0 1 0 0 0 0 0 0 0 0 0 1 0 0 0 0 0 0 0 0 0 1 0 0 0 0 0 0 0 0 0 1 0 0 0 0 0 0 0 0 0 1 0 0 0 0 0 0 0 0 0 1 0 0 0 0 0 0 0 0 0 1 0 0 0 0 0 0 0 0 0 1 e0 e1 e2 e3 e4 e5 e6 e7 e8 xg xa = heading.
Proof.
  intros Hrn Hrp.
  unfold ffres_lat, ffres_lon, ffres_alt, ffres_VN, ffres_VE, ffres_VD, ffres_roll, ffres_pitch, ffres_heading.
  unfold perturb_pva_lat, perturb_pva_lon, perturb_pva_alt, perturb_pva_VN, perturb_pva_VE, perturb_pva_VD,
    perturb_pva_roll, perturb_pva_pitch, perturb_pva_heading.
  unfold principal_radii_rn, principal_radii_rp in Hrn, Hrp.
  autounfold with ffres_db perturb_pva_db principal_radii_db in *.
  assert (HPI : PI <> 0) by (apply Rgt_not_eq, PI_RGT_0).
  split; [|split; [|repeat split; ring]].
  - match goal with |- context [e0 / ?d] => set (D := d) in * end. field. split; assumption.
  - match goal with |- context [e1 / ?d] => set (D := d) in * end. field. split; assumption.
Qed.
End CompensationInverse.

Section CompensationSd.
Local Open Scope R_scope.
Variables t00 t01 t10 t11 t20 t21 t30 t31 t40 t41 t50 t51 t60 t61 t70 t71 t80 t81 : R.
Variables p00 p01 p02 p03 p10 p11 p12 p13 p20 p21 p22 p23 p30 p31 p32 p33 : R.

(* trajectory_sd[k] = sqrt((T P_ins T^T)[k, k]); gyro_sd / accel_sd = sqrt of the diagonal entry of P
   (states ordered ins | gyro | accel: here 2 | 1 | 1) *)
Lemma ffsd_formulas :
  ffsd_sd_north t00 t01 t10 t11 t20 t21 t30 t31 t40 t41 t50 t51 t60 t61 t70 t71 t80 t81 p00 p01 p02 p03 p10 p11 p12 p13 p20 p21 p22 p23 p30 p31 p32 p33 = sqrt (t00 * p00 * t00 + t00 * p01 * t01 + t01 * p10 * t00 + t01 * p11 * t01) /\
  ffsd_sd_east t00 t01 t10 t11 t20 t21 t30 t31 t40 t41 t50 t51 t60 t61 t70 t71 t80 t81 p00 p01 p02 p03 p10 p11 p12 p13 p20 p21 p22 p23 p30 p31 p32 p33 = sqrt (t10 * p00 * t10 + t10 * p01 * t11 + t11 * p10 * t10 + t11 * p11 * t11) /\
  ffsd_sd_down t00 t01 t10 t11 t20 t21 t30 t31 t40 t41 t50 t51 t60 t61 t70 t71 t80 t81 p00 p01 p02 p03 p10 p11 p12 p13 p20 p21 p22 p23 p30 p31 p32 p33 = sqrt (t20 * p00 * t20 + t20 * p01 * t21 + t21 * p10 * t20 + t21 * p11 * t21) /\
  ffsd_sd_eVN t00 t01 t10 t11 t20 t21 t30 t31 t40 t41 t50 t51 t60 t61 t70 t71 t80 t81 p00 p01 p02 p03 p10 p11 p12 p13 p20 p21 p22 p23 p30 p31 p32 p33 = sqrt (t30 * p00 * t30 + t30 * p01 * t31 + t31 * p10 * t30 + t31 * p11 * t31) /\
  ffsd_sd_eVE t00 t01 t10 t11 t20 t21 t30 t31 t40 t41 t50 t51 t60 t61 t70 t71 t80 t81 p00 p01 p02 p03 p10 p11 p12 p13 p20 p21 p22 p23 p30 p31 p32 p33 = sqrt (t40 * p00 * t40 + t40 * p01 * t41 + t41 * p10 * t40 + t41 * p11 * t41) /\
  ffsd_sd_eVD t00 t01 t10 t11 t20 t21 t30 t31 t40 t41 t50 t51 t60 t61 t70 t71 t80 t81 p00 p01 p02 p03 p10 p11 p12 p13 p20 p21 p22 p23 p30 p31 p32 p33 = sqrt (t50 * p00 * t50 + t50 * p01 * t51 + t51 * p10 * t50 + t51 * p11 * t51) /\
  ffsd_sd_roll t00 t01 t10 t11 t20 t21 t30 t31 t40 t41 t50 t51 t60 t61 t70 t71 t80 t81 p00 p01 p02 p03 p10 p11 p12 p13 p20 p21 p22 p23 p30 p31 p32 p33 = sqrt (t60 * p00 * t60 + t60 * p01 * t61 + t61 * p10 * t60 + t61 * p11 * t61) /\
  ffsd_sd_pitch t00 t01 t10 t11 t20 t21 t30 t31 t40 t41 t50 t51 t60 t61 t70 t71 t80 t81 p00 p01 p02 p03 p10 p11 p12 p13 p20 p21 p22 p23 p30 p31 p32 p33 = sqrt (t70 * p00 * t70 + t70 * p01 * t71 + t71 * p10 * t70 + t71 * p11 * t71) /\
  ffsd_sd_heading t00 t01 t10 t11 t20 t21 t30 t31 t40 t41 t50 t51 t60 t61 t70 t71 t80 t81 p00 p01 p02 p03 p10 p11 p12 p13 p20 p21 p22 p23 p30 p31 p32 p33 = sqrt (t80 * p00 * t80 + t80 * p01 * t81 + t81 * p10 * t80 + t81 * p11 * t81) /\
  ffsd_sd_gyro t00 t01 t10 t11 t20 t21 t30 t31 t40 t41 t50 t51 t60 t61 t70 t71 t80 t81 p00 p01 p02 p03 p10 p11 p12 p13 p20 p21 p22 p23 p30 p31 p32 p33 = sqrt p22 /\
  ffsd_sd_accel t00 t01 t10 t11 t20 t21 t30 t31 t40 t41 t50 t51 t60 t61 t70 t71 t80 t81 p00 p01 p02 p03 p10 p11 p12 p13 p20 p21 p22 p23 p30 p31 p32 p33 = sqrt p33.
Proof.
  unfold ffsd_sd_north, ffsd_sd_east, ffsd_sd_down, ffsd_sd_eVN, ffsd_sd_eVE, ffsd_sd_eVD, ffsd_sd_roll, ffsd_sd_pitch, ffsd_sd_heading, ffsd_sd_gyro, ffsd_sd_accel.
  repeat split; try reflexivity; f_equal; ring.
Qed.
End CompensationSd.

From Coq Require Import List QArith Bool Arith Lia Lqa Sorted.
From PV Require Import Model.FeedbackSched Model.FeedforwardSched Model.FilterFlow Proofs.SchedProofs.
Import ListNotations.
Open Scope Q_scope.

(* ========================================================================= *)
(*  Part A                                                                   *)
(* ========================================================================= *)

Section FlowFacts.
  Variable state : Type.
  Variable corr : nat -> Q -> Q -> state -> state.
  Variable prop : nat -> nat -> state -> state.

  Local Notation ev := (ff_event corr prop).

  (* the sensor loop at one epoch *)
  Lemma flow_sensor_loop : forall m t (l : list (nat * list Q)) s acc,
    fold_left ev
      (flat_map (fun ks : nat * list Q =>
                   if stamped m (snd ks) then [Innov (fst ks) m t] else []) l) (s, acc) =
    (fold_left (fun s ks => if stamped m (snd ks) then corr (fst ks) m t s else s) l s, acc).
  Proof.
    intros m t l. induction l as [|ks l IH]; intros s acc; [reflexivity|].
    cbn [flat_map fold_left]. rewrite fold_left_app.
    destruct (stamped m (snd ks)); cbn [fold_left ff_event fst snd]; apply IH.
  Qed.

  Lemma flow_epoch : forall sensors m t s acc,
    fold_left ev (epoch_events sensors m t) (s, acc) = (corr_epoch corr sensors t s m, acc).
  Proof. intros. unfold epoch_events, corr_epoch. apply flow_sensor_loop. Qed.

  (* the inner while: all epochs of the prefix, in order *)
  Lemma flow_pre : forall sensors t pre s acc,
    fold_left ev (flat_map (fun m => epoch_events sensors m t) pre) (s, acc) =
    (fold_left (corr_epoch corr sensors t) pre s, acc).
  Proof.
    intros sensors t pre. induction pre as [|m pre IH]; intros s acc; [reflexivity|].
    cbn [flat_map fold_left]. rewrite fold_left_app, flow_epoch. apply IH.
  Qed.

  (* the accumulator of recorded rows only grows at the end *)
  Lemma kalman_grid_acc : forall times sensors epochs steps s,
    length (snd (kalman_grid corr prop times sensors epochs steps s)) = length steps.
  Proof.
    intros times sensors epochs steps. induction steps as [|[i j] r IH]; intro s; [reflexivity|].
    cbn [kalman_grid snd length]. now rewrite IH.
  Qed.

  (* a generic invariant principle for the fold: if Inv is preserved by both
     operations, every recorded state and the final state satisfy it; and two
     families of operations that agree on Inv-states produce the same flow *)
  Variable Inv : state -> Prop.
  Variable corr' : nat -> Q -> Q -> state -> state.
  Variable prop' : nat -> nat -> state -> state.
  Hypothesis corr_inv : forall k m t s, Inv s -> Inv (corr k m t s) /\ corr' k m t s = corr k m t s.
  Hypothesis prop_inv : forall i j s, Inv s -> Inv (prop i j s) /\ prop' i j s = prop i j s.

  Lemma ff_flow_inv_gen : forall tr s acc,
    Inv s -> Forall (fun r => Inv (snd r)) acc ->
    let r := fold_left ev tr (s, acc) in
    Inv (fst r) /\ Forall (fun r => Inv (snd r)) (snd r) /\
    fold_left (ff_event corr' prop') tr (s, acc) = r.
  Proof.
    induction tr as [|e tr IH]; intros s acc Hs Hacc; [cbn; auto|].
    cbn [fold_left]. destruct e as [k m t|t|a b|i j| |]; cbn [ff_event fst snd].
    - destruct (corr_inv k m t s Hs) as [H1 H2]. rewrite H2. now apply IH.
    - apply IH; [assumption|]. apply Forall_app. split; [assumption|]. now repeat constructor.
    - now apply IH.
    - destruct (prop_inv i j s Hs) as [H1 H2]. rewrite H2. now apply IH.
    - now apply IH.
    - now apply IH.
  Qed.

  Lemma ff_flow_inv : forall tr s0, Inv s0 ->
    Inv (fst (ff_flow corr prop tr s0)) /\
    Forall (fun r => Inv (snd r)) (snd (ff_flow corr prop tr s0)) /\
    ff_flow corr' prop' tr s0 = ff_flow corr prop tr s0.
  Proof. intros tr s0 H. unfold ff_flow. apply ff_flow_inv_gen; [assumption|constructor]. Qed.
End FlowFacts.

(* ---------- the loop of run_feedforward_filter ----------------------------- *)

Section LoopFlow.
  Variable state : Type.
  Variable corr : nat -> Q -> Q -> state -> state.
  Variable prop : nat -> nat -> state -> state.
  Variable add_step : Q -> Q.
  Variable times : list Q.
  Variable sensors : list (list Q).
  Variable epochs : list Q.
  Hypothesis Hsorted : sorted times.

  Local Notation len := (length times).
  Local Notation ev := (ff_event corr prop).
  Local Notation grid := (kalman_grid corr prop times sensors epochs).
  Local Notation due := (filter (fun m => Qltb m (nth (len - 1) times 0))).

  (* the epochs of row `index` are exactly the prefix the inner loop consumes *)
  Lemma row_epochs_prefix : forall index done pre p' bound,
    epochs = done ++ pre ++ p' ->
    bound = nth (index + 1) times 0 ->
    Forall (fun m => m < nth index times 0) done ->
    Forall (fun m => nth index times 0 <= m) pre ->
    Forall (fun m => m < bound) pre ->
    Forall (fun m => bound <= m) p' ->
    row_epochs times epochs index = pre.
  Proof.
    intros index done pre p' bound He Hb Hdone Hlow Hpre Hp'. subst bound.
    unfold row_epochs. rewrite He, !filter_app.
    rewrite (filter_all_false _ done), (filter_all_true _ pre), (filter_all_false _ p').
    - now rewrite app_nil_r.
    - intros x Hx. rewrite Forall_forall in Hp'. specialize (Hp' x Hx).
      apply andb_false_iff. right. now apply Qltb_false.
    - intros x Hx. rewrite Forall_forall in Hlow, Hpre.
      apply andb_true_iff. split; [apply Qle_bool_iff; auto|apply Qltb_true; auto].
    - intros x Hx. rewrite Forall_forall in Hdone. specialize (Hdone x Hx).
      apply andb_false_iff. left. now apply Qle_bool_false.
  Qed.

  Lemma ff_loop_flow : forall fuel index pending done s acc,
    (len - 1 - index <= fuel)%nat -> (index < len)%nat ->
    sorted pending -> Forall (fun m => nth index times 0 <= m) pending ->
    epochs = done ++ pending -> Forall (fun m => m < nth index times 0) done ->
    let tr := ff_loop fuel add_step times sensors index pending in
    fold_left ev tr (s, acc) =
      (fst (grid (propagations tr) s), acc ++ snd (grid (propagations tr) s)) /\
    flat_map (row_epochs times epochs) (map fst (propagations tr)) = due pending.
  Proof.
    assert (Base : forall fuel index pending s acc, (index < len)%nat -> ~ (index + 1 < len)%nat ->
              Forall (fun m => nth index times 0 <= m) pending ->
              let tr := ff_loop fuel add_step times sensors index pending in
              fold_left ev tr (s, acc) =
                (fst (grid (propagations tr) s), acc ++ snd (grid (propagations tr) s)) /\
              flat_map (row_epochs times epochs) (map fst (propagations tr)) = due pending).
    { intros fuel index pending s acc Hidx Hdone Hlow.
      rewrite (ff_loop_done add_step times sensors fuel index pending Hdone).
      cbn. rewrite app_nil_r. split; [reflexivity|].
      assert (index = len - 1)%nat as -> by lia.
      symmetry. apply filter_all_false. intros x Hx. rewrite Forall_forall in Hlow.
      apply Qltb_false. auto. }
    induction fuel as [|fuel IH]; intros index pending done s acc Hfuel Hidx Hsp Hlow He Hdone.
    - apply Base; [assumption|lia|assumption].
    - destruct (Nat.lt_ge_cases (index + 1) len) as [Hlt|Hge];
        [|apply Base; [assumption|lia|assumption]].
      rewrite (ff_loop_step add_step times sensors fuel index pending Hlt).
      destruct (inner sensors (nth index times 0) (nth (index + 1) times 0) pending)
        as [evs p'] eqn:Einner.
      apply inner_spec in Einner as (pre & Hsplit & Hev & Hpre & Hhead).
      destruct (ff_step add_step times index p' Hlt Hhead) as (Hn' & Hhead' & Hbound).
      cbv zeta.
      set (nidx := Nat.max (searchsorted_right times
                      (min_inf (add_step (nth index times 0)) (head_inf p')) - 1)
                      (index + 1)) in *.
      rewrite (nth_error_nth' times 0 (n:=nidx)) by lia.
      assert (Hsp' : sorted p') by (subst pending; now apply sorted_app_r in Hsp).
      assert (Hlow' : Forall (fun m => nth nidx times 0 <= m) p').
      { destruct p' as [|m p]; [constructor|]. now apply sorted_head_le. }
      assert (Hp'b : Forall (fun m => nth (index + 1) times 0 <= m) p').
      { destruct p' as [|m p]; [constructor|]. now apply sorted_head_le. }
      assert (Hlowpre : Forall (fun m => nth index times 0 <= m) pre).
      { subst pending. now apply Forall_app in Hlow as [? _]. }
      assert (Hrow : row_epochs times epochs index = pre).
      { apply (row_epochs_prefix index done pre p' (nth (index + 1) times 0)); try assumption;
          try reflexivity. now rewrite He, Hsplit. }
      assert (Hle : nth (index + 1) times 0 <= nth nidx times 0).
      { apply (tt_le times Hsorted); lia. }
      assert (Hlt' : nth index times 0 < nth (index + 1) times 0).
      { apply (tt_lt times Hsorted); lia. }
      assert (Hdone' : Forall (fun m => m < nth nidx times 0) (done ++ pre)).
      { apply Forall_app. split.
        - rewrite Forall_forall in *. intros x Hx. specialize (Hdone x Hx). lra.
        - rewrite Forall_forall in *. intros x Hx. specialize (Hpre x Hx). lra. }
      assert (He' : epochs = (done ++ pre) ++ p') by (now rewrite <- app_assoc, He, Hsplit).
      pose proof (events_all_innov sensors (nth index times 0) pre) as Hall.
      rewrite <- Hev in Hall.
      set (tr' := ff_loop fuel add_step times sensors nidx p') in *.
      assert (Hprops : propagations (evs ++ Record (nth index times 0) :: Propagate index nidx :: tr')
                       = (index, nidx) :: propagations tr').
      { change (evs ++ Record (nth index times 0) :: Propagate index nidx :: tr')
          with (evs ++ [Record (nth index times 0); Propagate index nidx] ++ tr').
        rewrite !propagations_app, (all_innov_propagations evs Hall). reflexivity. }
      rewrite Hprops.
      split.
      + rewrite fold_left_app, Hev, flow_pre. cbn [fold_left ff_event fst snd].
        destruct (IH nidx p' (done ++ pre) (prop index nidx (fold_left (corr_epoch corr sensors (nth index times 0)) pre s))
                     (acc ++ [(nth index times 0, fold_left (corr_epoch corr sensors (nth index times 0)) pre s)])
                     ltac:(lia) ltac:(lia) Hsp' Hlow' He' Hdone') as [IH1 _].
        fold tr' in IH1. rewrite IH1.
        cbn [kalman_grid fst snd]. rewrite Hrow. rewrite <- app_assoc. reflexivity.
      + destruct (IH nidx p' (done ++ pre) s acc ltac:(lia) ltac:(lia) Hsp' Hlow' He' Hdone') as [_ IH2].
        fold tr' in IH2.
        cbn [map fst flat_map]. rewrite Hrow, IH2. subst pending.
        symmetry. apply (filter_lt_split pre p' (nth (index + 1) times 0)); [assumption|].
        apply (tt_le times Hsorted); lia.
  Qed.
End LoopFlow.

(* ---------- (a) ff_is_kalman_recursion ------------------------------------- *)

(* For every schedule (any strictly increasing time index with >= 2 rows, any
   stamps, any step function): the fold of the event trace of the loop equals the
   textbook recursion on the grid  0 = i_0 < i_1 < ... < i_N = len - 1  of the
   propagation steps: at every grid row i_r all epochs m with
   times[i_r] <= m < times[i_r + 1] are corrected (ascending, sensors in list
   order), the row (time, state) is recorded AFTER these corrections and BEFORE
   the propagation i_r -> i_{r+1}; every epoch in [start, end) belongs to exactly
   one grid row (none is lost, none lies in a skipped row). *)
Theorem ff_is_kalman_recursion_oracle :
  forall (state : Type) (corr : nat -> Q -> Q -> state -> state) (prop : nat -> nat -> state -> state)
         add_step times sensors fuel (s0 : state),
  sorted times -> (2 <= length times)%nat -> (length times - 1 <= fuel)%nat ->
  let tr := ff_run fuel add_step times sensors in
  let tstart := nth 0 times 0 in
  let tend := nth (length times - 1) times 0 in
  let epochs := clip tstart tend (merge_times sensors) in
  let steps := propagations tr in
  ff_flow corr prop tr s0 = kalman_grid corr prop times sensors epochs steps s0 /\
  chain 0 steps (length times - 1) /\
  (forall i j, In (i, j) steps -> (i < j)%nat /\ (j < length times)%nat) /\
  flat_map (row_epochs times epochs) (map fst steps) = filter (in_range tstart tend) (merge_times sensors) /\
  map fst (snd (ff_flow corr prop tr s0)) = record_times tr.
Proof.
  intros state corr prop add_step times sensors fuel s0 Hs Hlen Hfuel.
  assert (Hrun : ff_run fuel add_step times sensors =
                 ff_loop fuel add_step times sensors 0
                   (clip (nth 0 times 0) (nth (length times - 1) times 0) (merge_times sensors))).
  { unfold ff_run. destruct times as [|a l]; [cbn in Hlen; lia|].
    rewrite (last_nth_len (a :: l) a) by discriminate. reflexivity. }
  intros tr tstart tend epochs steps. fold tr in Hrun. fold tstart tend in Hrun. fold epochs in Hrun.
  assert (Hsp : sorted epochs) by apply clip_sorted, merge_times_sorted.
  assert (Hlow : Forall (fun m => nth 0 times 0 <= m) epochs).
  { apply Forall_forall. intros m Hm. apply clip_In in Hm. tauto. }
  destruct (ff_loop_flow state corr prop add_step times sensors epochs Hs fuel 0%nat epochs [] s0 []
              ltac:(lia) ltac:(lia) Hsp Hlow eq_refl ltac:(constructor)) as [H1 H2].
  rewrite <- Hrun in H1, H2. fold steps in H1, H2.
  destruct (ff_positive_propagate_oracle add_step times sensors fuel Hs Hlen Hfuel) as [Hp Hc].
  fold tr in Hp, Hc. fold steps in Hp, Hc.
  assert (Hflow : ff_flow corr prop tr s0 = kalman_grid corr prop times sensors epochs steps s0).
  { unfold ff_flow. rewrite H1. cbn [app]. now destruct (kalman_grid _ _ _ _ _ _ _). }
  split; [exact Hflow|]. split; [exact Hc|]. split.
  { intros i j Hin. destruct (Hp i j Hin) as (A & B & _). now split. }
  split.
  { rewrite H2. apply filter_lt_clip. }
  { rewrite Hflow.
    destruct (ff_records_oracle add_step times sensors fuel Hs Hlen Hfuel) as (_ & _ & _ & Hr).
    fold tr in Hr. fold steps in Hr. rewrite Hr.
    clear. generalize s0. induction steps as [|[i j] r IH]; intro s; [reflexivity|].
    cbn [kalman_grid snd map fst]. f_equal. apply IH. }
Qed.

Theorem ff_is_kalman_recursion :
  forall (state : Type) (corr : nat -> Q -> Q -> state -> state) (prop : nat -> nat -> state -> state)
         time_step times sensors fuel (s0 : state),
  sorted times -> (2 <= length times)%nat -> (length times - 1 <= fuel)%nat ->
  let tr := ff_run_exact fuel time_step times sensors in
  let tstart := nth 0 times 0 in
  let tend := nth (length times - 1) times 0 in
  let epochs := clip tstart tend (merge_times sensors) in
  let steps := propagations tr in
  ff_flow corr prop tr s0 = kalman_grid corr prop times sensors epochs steps s0 /\
  chain 0 steps (length times - 1) /\
  (forall i j, In (i, j) steps -> (i < j)%nat /\ (j < length times)%nat) /\
  flat_map (row_epochs times epochs) (map fst steps) = filter (in_range tstart tend) (merge_times sensors) /\
  map fst (snd (ff_flow corr prop tr s0)) = record_times tr.
Proof. intros. now apply ff_is_kalman_recursion_oracle. Qed.

(* non-vacuity / illustration: the schedule of Props/C10.v on the free algebra *)
Definition ex_times : list Q := [1; 11#10; 12#10; 13#10; 14#10; 15#10].
Definition ex_sensors : list (list Q) :=
  [ [99#100; 101#100; 12#10; 143#100; 15#10];
    [1; 102#100; 12#10; 147#100; 2];
    [103#100] ].

Lemma ex_flow_large_step :
  let tr := ff_run_exact 5 1 ex_times ex_sensors in
  propagations tr = [(0, 2); (2, 4); (4, 5)]%nat /\
  snd (t_flow tr) =
    [ (1, TCorr 2 (103#100) 1 (TCorr 1 (102#100) 1 (TCorr 0 (101#100) 1 (TCorr 1 1 1 TInit))));
      (12#10, TCorr 1 (12#10) (12#10) (TCorr 0 (12#10) (12#10)
                (TProp 0 2 (TCorr 2 (103#100) 1 (TCorr 1 (102#100) 1 (TCorr 0 (101#100) 1 (TCorr 1 1 1 TInit)))))));
      (14#10, TCorr 1 (147#100) (14#10) (TCorr 0 (143#100) (14#10)
                (TProp 2 4 (TCorr 1 (12#10) (12#10) (TCorr 0 (12#10) (12#10)
                (TProp 0 2 (TCorr 2 (103#100) 1 (TCorr 1 (102#100) 1 (TCorr 0 (101#100) 1 (TCorr 1 1 1 TInit)))))))))) ] /\
  t_flow tr = kalman_grid TCorr TProp ex_times ex_sensors
                (clip 1 (15#10) (merge_times ex_sensors)) (propagations tr) TInit.
Proof. vm_compute. repeat split. Qed.

(* ========================================================================= *)
(*  Part B : the operations (MathComp)                                        *)
(* ========================================================================= *)
From mathcomp Require Import all_ssreflect all_algebra.
From PV Require Import Spec.LibSpecsMx Spec.Gaussian Gen.Kalman Gen.C11Mx Proofs.KalmanProofs.
Set Implicit Arguments.
Unset Strict Implicit.
Import Order.Theory GRing.Theory Num.Theory.
Local Open Scope ring_scope.

(* ---------- (b) H_full = [H | 0 | 0] --------------------------------------- *)
Section HFull.
Variable F : fieldType.
Variables ni ns m : nat.         (* ns = number of sensor-parameter states (gyro + accel) *)
Variables (H : 'M[F]_(m, ni)) (R : 'M[F]_m) (P : 'M[F]_(ni + ns)) (x : 'cV[F]_(ni + ns)).

(* the predicted measurement depends on the inertial block of the state only *)
Lemma h_full_state : row_mx H 0 *m x = H *m usubmx x.
Proof. by rewrite -{1}[x]vsubmxK mul_row_col mul0mx addr0. Qed.

(* ... the innovation covariance on the inertial block of P only *)
Lemma h_full_cov : row_mx H 0 *m P *m (row_mx H 0)^T = H *m ulsubmx P *m H^T.
Proof.
rewrite -{1}[P]submxK mul_row_block !mul0mx !addr0.
by rewrite tr_row_mx trmx0 mul_row_col mulmx0 addr0.
Qed.

(* ... and the sensor parameters are corrected only through their cross-covariance
   with the inertial states *)
Lemma h_full_cross :
  P *m (row_mx H 0)^T = col_mx (ulsubmx P *m H^T) (dlsubmx P *m H^T).
Proof.
rewrite -{1}[P]submxK tr_row_mx trmx0 mul_block_col !mulmx0 !addr0. by [].
Qed.

Lemma h_full_S : correct_S P (row_mx H 0) R = H *m ulsubmx P *m H^T + R.
Proof. by rewrite correct_S_eq /innov_cov h_full_cov. Qed.

Theorem h_full_embedding :
  [/\ row_mx H 0 *m x = H *m usubmx x,
      row_mx H 0 *m P *m (row_mx H 0)^T = H *m ulsubmx P *m H^T,
      correct_S P (row_mx H 0) R = H *m ulsubmx P *m H^T + R
    & P *m (row_mx H 0)^T = col_mx (ulsubmx P *m H^T) (dlsubmx P *m H^T)].
Proof. by split; [exact: h_full_state | exact: h_full_cov | exact: h_full_S | exact: h_full_cross]. Qed.
End HFull.

(* ---------- every correction is the conditional-Gaussian update ------------ *)
Section FlowOps.
Variable F : realFieldType.
Variables ni ng na : nat.
Local Notation n := (ni + (ng + na))%N.
Variable mdim : nat -> nat.
Variable zf : forall k : nat, Q -> 'cV[F]_(mdim k).
Variable Hf : forall k : nat, Q -> 'M[F]_(mdim k, ni).
Variable Rf : forall k : nat, 'M[F]_(mdim k).
Variable chol : forall k : nat, 'M[F]_(mdim k) -> 'M[F]_(mdim k).
Variables Phi Qd : nat -> nat -> 'M[F]_n.

Hypothesis R_sym : forall k, (Rf k)^T = Rf k.
Hypothesis R_pd : forall k, pd (Rf k).
(* scipy.linalg.cholesky returns a lower factor of every innovation covariance H_full P H_full^T + R
   it can be handed (P symmetric positive semidefinite; the matrix is then positive definite) *)
Hypothesis chol_ok : forall k m (P : 'M[F]_n), P^T = P -> psd P ->
  cholesky_factor (@chol k) (correct_S P (@h_full F ni ng na mdim Hf k m) (Rf k)).
Hypothesis Qd_sym : forall i j, (Qd i j)^T = Qd i j.
Hypothesis Qd_psd : forall i j, psd (Qd i j).

Local Notation kc := (@k_corr F ni ng na mdim zf Hf Rf chol).
Local Notation kcs := (@k_corr_spec F ni ng na mdim zf Hf Rf).
Local Notation kp := (@k_prop F ni ng na Phi Qd).

Lemma correct_S_sym (m' : nat) (P : 'M[F]_n) (H : 'M[F]_(m', n)) (R : 'M[F]_m') :
  P^T = P -> R^T = R -> (correct_S P H R)^T = correct_S P H R.
Proof. by move=> sP sR; rewrite correct_S_eq; apply: innov_cov_sym. Qed.

Lemma k_corr_conditional k m t (s : kstate F ni ng na) :
  cov_ok s -> cov_ok (kc k m t s) /\ kcs k m t s = kc k m t s.
Proof.
case=> sP pP.
have cF : cholesky_factor (@chol k) (correct_S s.2 (@h_full F ni ng na mdim Hf k m) (Rf k)).
  exact: chol_ok.
have [e0 e1 _ _] := correct_is_conditional s.1 (zf k m) sP pP (R_sym k) (@R_pd k) cF.
have [s1 p1 _] := correct_cov_properties sP pP (R_sym k) (@R_pd k) cF.
by split; [split | rewrite /k_corr /k_corr_spec e0 e1].
Qed.

Lemma k_prop_ok i j (s : kstate F ni ng na) : cov_ok s -> cov_ok (kp i j s) /\ kp i j s = kp i j s.
Proof.
case=> sP pP; split=> //; split.
- by rewrite /k_prop /= trmx_add !trmx_mul trmxK sP Qd_sym mulmxA.
- by apply: psd_add (@Qd_psd i j); apply: psd_conj.
Qed.

(* for EVERY event trace: the fold of the generated code's operations is the fold of the
   conditional-Gaussian updates of Spec/Gaussian.v, and every covariance that is recorded,
   passed to kalman.correct or returned at the end is symmetric positive semidefinite *)
Theorem kalman_flow_spec (tr : list event) (s0 : kstate F ni ng na) :
  cov_ok s0 ->
  [/\ cov_ok (ff_flow kc kp tr s0).1,
      List.Forall (fun r => cov_ok r.2) (ff_flow kc kp tr s0).2
    & ff_flow kcs kp tr s0 = ff_flow kc kp tr s0].
Proof.
move=> ok0.
have [h1 [h2 h3]] := @ff_flow_inv _ kc kp (@cov_ok F ni ng na) kcs kp k_corr_conditional k_prop_ok tr s0 ok0.
by split.
Qed.
End FlowOps.

(* ---------- block layout of the assembly functions -------------------------- *)
Section PsdBlocks.
Variable F : realFieldType.

Lemma psd_block_diag (m1 m2 : nat) (A : 'M[F]_m1) (B : 'M[F]_m2) :
  psd A -> psd B -> psd (block_mx A 0 0 B).
Proof.
move=> pA pB x; rewrite -[x]vsubmxK tr_col_mx mul_row_block !mulmx0 addr0 add0r mul_row_col mxE.
by rewrite addr_ge0 ?pA ?pB.
Qed.

Lemma sym_block_diag (m1 m2 : nat) (A : 'M[F]_m1) (B : 'M[F]_m2) :
  A^T = A -> B^T = B -> (block_mx A 0 0 B)^T = block_mx A 0 0 B.
Proof. by move=> sA sB; rewrite tr_block_mx !trmx0 sA sB. Qed.
End PsdBlocks.

Section AssemblyFacts.
Variable F : realFieldType.
Variables ni ng na vg va qg qa : nat.
Variables (T : 'M[F]_(ni, 9)) (Ppva : 'M[F]_9) (Pg : 'M[F]_ng) (Pa : 'M[F]_na).
Variables (Fii : 'M[F]_ni) (Fig Fia : 'M[F]_(ni, 3)).
Variables (Hg : 'M[F]_(3, ng)) (Ha : 'M[F]_(3, na)).
Variables (Fg : 'M[F]_ng) (Fa : 'M[F]_na).
Variables (Jg : 'M[F]_(3, vg)) (Ja : 'M[F]_(3, va)).
Variables (Gg : 'M[F]_(ng, qg)) (Ga : 'M[F]_(na, qa)).
Variables (v_g : 'cV[F]_vg) (v_a : 'cV[F]_va) (q_g : 'cV[F]_qg) (q_a : 'cV[F]_qa).

(* P0 = T P_pva T^T (+) P_gyro (+) P_accel : the four blocks, for every triple of sizes *)
Lemma init_cov_blocks :
  [/\ ulsubmx (init_cov T Ppva Pg Pa) = T *m Ppva *m T^T,
      ursubmx (init_cov T Ppva Pg Pa) = 0,
      dlsubmx (init_cov T Ppva Pg Pa) = 0
    & drsubmx (init_cov T Ppva Pg Pa) = block_mx Pg 0 0 Pa].
Proof. by rewrite /init_cov block_mxKul block_mxKur block_mxKdl block_mxKdr. Qed.

(* the initial state (0, P0) satisfies the covariance invariant *)
Lemma init_cov_ok :
  Ppva^T = Ppva -> psd Ppva -> Pg^T = Pg -> psd Pg -> Pa^T = Pa -> psd Pa ->
  (init_cov T Ppva Pg Pa)^T = init_cov T Ppva Pg Pa /\ psd (init_cov T Ppva Pg Pa).
Proof.
move=> sP pP sg pg sa pa; split.
- apply: sym_block_diag; last exact: sym_block_diag.
  by rewrite !trmx_mul trmxK sP mulmxA.
- by apply: psd_block_diag; [apply: psd_conj | apply: psd_block_diag].
Qed.

(* F: rows (ins | gyro | accel) x columns (ins | gyro | accel) *)
Lemma asm_F_blocks :
  [/\ ulsubmx (asm_F Fii Fig Fia Hg Ha Fg Fa) = Fii,
      ursubmx (asm_F Fii Fig Fia Hg Ha Fg Fa) = row_mx (Fig *m Hg) (Fia *m Ha),
      dlsubmx (asm_F Fii Fig Fia Hg Ha Fg Fa) = 0
    & drsubmx (asm_F Fii Fig Fia Hg Ha Fg Fa) = block_mx Fg 0 0 Fa].
Proof. by rewrite /asm_F block_mxKul block_mxKur block_mxKdl block_mxKdr. Qed.

(* the sensor parameters do not depend on the navigation errors and not on each other *)
Lemma asm_F_rows :
  dsubmx (asm_F Fii Fig Fia Hg Ha Fg Fa) = row_mx 0 (block_mx Fg 0 0 Fa).
Proof. by rewrite /asm_F /block_mx col_mxKd. Qed.

(* G: rows (ins | gyro | accel) x columns (gyro output noise | accel output noise | gyro noise | accel noise) *)
Lemma asm_G_rows :
  [/\ usubmx (asm_G Fig Fia Jg Ja Gg Ga) = row_mx (Fig *m Jg) (row_mx (Fia *m Ja) 0),
      usubmx (dsubmx (asm_G Fig Fia Jg Ja Gg Ga)) = row_mx 0 (row_mx 0 (row_mx Gg 0))
    & dsubmx (dsubmx (asm_G Fig Fia Jg Ja Gg Ga)) = row_mx 0 (row_mx 0 (row_mx 0 Ga))].
Proof. by rewrite /asm_G col_mxKu col_mxKd col_mxKu col_mxKd. Qed.

(* diag(q^2) of the stacked intensities is block diagonal *)
Lemma diag_sq_col (k1 k2 : nat) (a : 'cV[F]_k1) (b : 'cV[F]_k2) :
  diag_sq (col_mx a b) = block_mx (diag_sq a) 0 0 (diag_sq b).
Proof.
rewrite /diag_sq -diag_mx_row; congr diag_mx.
apply/rowP=> j; rewrite !mxE; case: (splitP j) => j' _; by rewrite !mxE.
Qed.

(* Q = G diag(q^2) G^T is symmetric positive semidefinite for every choice of the blocks *)
Lemma diag_sq_sym (k : nat) (u : 'cV[F]_k) : (diag_sq u)^T = diag_sq u.
Proof. by rewrite /diag_sq tr_diag_mx. Qed.

Lemma diag_sq_psd (k : nat) (u : 'cV[F]_k) : psd (diag_sq u).
Proof.
move=> x; rewrite /diag_sq mxE; apply: sumr_ge0 => j _.
rewrite mul_mx_diag !mxE mulrAC -expr2.
by apply: mulr_ge0; apply: sqr_ge0.
Qed.

(* ---- the block terms above ARE the terms generated from the live functions (Gen/C11Mx.v, traced at
   matrix granularity by tools/reg/c11.py with 3 sensor axes and 9 output states) ---- *)
Lemma col_row0 (m1 m2 n1 n2 : nat) (A : 'M[F]_(m1, n2)) (B : 'M[F]_(m2, n2)) :
  col_mx (row_mx (0 : 'M[F]_(m1, n1)) A) (row_mx 0 B) = row_mx 0 (col_mx A B).
Proof. by rewrite -block_mxEv block_mxEh col_mx0. Qed.

Lemma gen_icov_eq : icov_ret0 T Ppva Pg Pa = init_cov T Ppva Pg Pa.
Proof. by rewrite /icov_ret0 /init_cov ?row_mx0 ?col_row0 !block_mxEv. Qed.

Lemma gen_epm_F_eq : epm_ret0 Fii Fig Fia Hg Ha Fg Fa = asm_F Fii Fig Fia Hg Ha Fg Fa.
Proof. by rewrite /epm_ret0 /asm_F ?row_mx0 ?col_row0 !block_mxEv. Qed.

Lemma gen_epm_Q_eq :
  epm_ret1 Fig Fia Jg Ja Gg Ga v_g v_a q_g q_a = asm_Q Fig Fia Jg Ja Gg Ga v_g v_a q_g q_a.
Proof. by rewrite /epm_ret1 /asm_Q /asm_G /asm_q ?row_mx0. Qed.

(* only the generated OUTPUT definitions are referred to: no name or shape of an intermediate of the code *)
Theorem generated_assembly :
  [/\ icov_ret0 T Ppva Pg Pa = init_cov T Ppva Pg Pa,
      epm_ret0 Fii Fig Fia Hg Ha Fg Fa = asm_F Fii Fig Fia Hg Ha Fg Fa
    & epm_ret1 Fig Fia Jg Ja Gg Ga v_g v_a q_g q_a = asm_Q Fig Fia Jg Ja Gg Ga v_g v_a q_g q_a].
Proof. by split; [exact: gen_icov_eq | exact: gen_epm_F_eq | exact: gen_epm_Q_eq]. Qed.

(* Q = G diag(q^2) G^T written out: the inertial block receives the gyro / accelerometer OUTPUT noises
   through Fig Jg and Fia Ja, each parameter block its own driving noise, and there are no cross terms *)
Lemma asm_Q_blocks :
  asm_Q Fig Fia Jg Ja Gg Ga v_g v_a q_g q_a =
  block_mx (Fig *m Jg *m diag_sq v_g *m (Fig *m Jg)^T + Fia *m Ja *m diag_sq v_a *m (Fia *m Ja)^T) 0
           0 (block_mx (Gg *m diag_sq q_g *m Gg^T) 0 0 (Ga *m diag_sq q_a *m Ga^T)).
Proof.
rewrite /asm_Q /asm_G /asm_q !diag_sq_col.
set A := Fig *m Jg; set B := Fia *m Ja.
set D1 := diag_sq v_g; set D2 := diag_sq v_a; set D3 := diag_sq q_g; set D4 := diag_sq q_a.
rewrite !mul_col_mx !mul_row_block !mulmx0 !mul0mx !addr0 !add0r.
rewrite !tr_col_mx !tr_row_mx !trmx0.
rewrite !mul_mx_row !mul_row_col !mulmx0 !mul0mx !addr0 !add0r.
by rewrite row_mx0 col_row0 !block_mxEv.
Qed.

Lemma asm_Q_ok :
  (asm_Q Fig Fia Jg Ja Gg Ga v_g v_a q_g q_a)^T = asm_Q Fig Fia Jg Ja Gg Ga v_g v_a q_g q_a /\
  psd (asm_Q Fig Fia Jg Ja Gg Ga v_g v_a q_g q_a).
Proof.
split; first by rewrite /asm_Q !trmx_mul trmxK diag_sq_sym mulmxA.
exact/psd_conj/diag_sq_psd.
Qed.
End AssemblyFacts.

(* ========================================================================= *)
(*  Part C : the recursion equals the one-shot weighted least squares          *)
(*           (Gauss-Markov) solution -- positive definite data                 *)
(* ========================================================================= *)
Section PdFacts.
Variable F : realFieldType.

Lemma trmx11 (M : 'M[F]_1) : M^T = M.
Proof. by apply/matrixP=> i j; rewrite mxE !ord1. Qed.

Lemma pd_inv (n : nat) (A : 'M[F]_n) : A^T = A -> pd A -> pd (invmx A).
Proof.
move=> sA pA x nz; have uA := pd_unitmx pA.
have nz' : invmx A *m x != 0.
  by apply: contra nz => /eqP e; rewrite -[x]mul1mx -(mulmxV uA) -mulmxA e mulmx0.
have := pA _ nz'.
by rewrite trmx_mul (invmx_sym sA) -!mulmxA (mulmxA A) (mulmxV uA) mul1mx.
Qed.

Lemma pd_pos_or_eq (n : nat) (A : 'M[F]_n) (e : 'cV[F]_n) :
  pd A -> qform A e <= 0 -> e = 0.
Proof.
move=> pA le0; apply/eqP; apply: contraT => nz.
by have := pA _ nz; rewrite /qform in le0 *; rewrite ltNge le0.
Qed.

Lemma qform0 (n : nat) (A : 'M[F]_n) : qform A 0 = 0.
Proof. by rewrite /qform mulmx0 mxE. Qed.

(* (u + v)^T A (u + v) *)
Lemma quad_shift (k : nat) (A : 'M[F]_k) (u v : 'cV[F]_k) :
  (u + v)^T *m A *m (u + v) =
  u^T *m A *m u + (u^T *m A *m v + v^T *m A *m u) + v^T *m A *m v.
Proof. by rewrite trmx_add !mulmxDl !mulmxDr !addrA. Qed.
End PdFacts.

(* completing the square, abstractly: if Pi a = H^T Ri r (the gradient vanishes) then
   |a + d|^2_Pi + |r - H d|^2_Ri = |a|^2_Pi + |r|^2_Ri + |d|^2_(Pi + H^T Ri H) *)
Section CompleteSquare.
Variable F : realFieldType.
Variables n m : nat.
Variables (Pi : 'M[F]_n) (Ri : 'M[F]_m) (H : 'M[F]_(m, n)).
Variables (a d : 'cV[F]_n) (r : 'cV[F]_m).
Hypothesis sPi : Pi^T = Pi.
Hypothesis sRi : Ri^T = Ri.
Hypothesis grad0 : Pi *m a = H^T *m Ri *m r.

Lemma zmod_arith (V : zmodType) (t1 t2 t3 t4 q : V) :
  t1 + (q + q) + t3 + (t2 + (- q - q) + t4) = t1 + t2 + (t3 + t4).
Proof. by rewrite addrACA (addrACA t1) -opprD subrr addr0. Qed.

Lemma complete_square :
  (a + d)^T *m Pi *m (a + d) + (r - H *m d)^T *m Ri *m (r - H *m d) =
  a^T *m Pi *m a + r^T *m Ri *m r + d^T *m (Pi + H^T *m Ri *m H) *m d.
Proof.
pose q := d^T *m (H^T *m Ri *m r).
have c1 : a^T *m Pi *m d = q.
  by rewrite -[LHS]trmx11 !trmx_mul trmxK sPi grad0.
have c1' : d^T *m Pi *m a = q by rewrite -mulmxA grad0.
have c2 : r^T *m Ri *m (- (H *m d)) = - q.
  by rewrite /q mulmxN -[X in - X = _]trmx11 !trmx_mul !trmxK sRi !mulmxA.
have c3 : (- (H *m d))^T *m Ri *m r = - q.
  by rewrite /q linearN /= !mulNmx trmx_mul !mulmxA.
have c4 : (- (H *m d))^T *m Ri *m (- (H *m d)) = d^T *m (H^T *m Ri *m H) *m d.
  by rewrite mulmxN linearN /= !mulNmx opprK trmx_mul !mulmxA.
rewrite !quad_shift c1 c1' c2 c3 c4 mulmxDr mulmxDl.
exact: zmod_arith.
Qed.
End CompleteSquare.

(* ---------- one stage: prior + one measurement block ------------------------ *)
Section KeyIdentity.
Variable F : realFieldType.
Variables n m : nat.
Variables (xb : 'cV[F]_n) (P : 'M[F]_n) (z : 'cV[F]_m) (H : 'M[F]_(m, n)) (R : 'M[F]_m).
Hypothesis sP : P^T = P.
Hypothesis pP : pd P.
Hypothesis sR : R^T = R.
Hypothesis pR : pd R.

Let uP := pd_unitmx pP.
Let uR := pd_unitmx pR.
Local Notation S := (innov_cov P H R).
Local Notation W := (info_mx P H R).
Local Notation xh := (cond_mean xb P z H R).
Local Notation K := (gain P H R).
Local Notation e := (z - H *m xb).

Lemma key_S_pd : pd S.
Proof. by apply: pd_add_psd => //; apply: psd_conj; apply: pd_psd. Qed.

Lemma key_S_sym : S^T = S.
Proof. exact: innov_cov_sym. Qed.

Lemma key_uS : S \in unitmx.
Proof. exact: pd_unitmx key_S_pd. Qed.

Lemma key_W_sym : W^T = W.
Proof.
by rewrite /info_mx trmx_add !trmx_mul trmxK (invmx_sym sP) (invmx_sym sR) mulmxA.
Qed.

Lemma key_W_pd : pd W.
Proof.
rewrite /info_mx addrC; apply: pd_add_psd; last exact: pd_inv.
have := @psd_conj F _ _ (invmx R) H^T (pd_psd (pd_inv sR pR)).
by rewrite trmxK.
Qed.

Lemma key_cov_W : cond_cov P H R *m W = 1%:M.
Proof. exact: cond_cov_info key_uS uP uR. Qed.

Lemma key_W_cov : W *m cond_cov P H R = 1%:M.
Proof. exact/mulmx1C/key_cov_W. Qed.

Lemma key_uW : W \in unitmx.
Proof. exact: pd_unitmx key_W_pd. Qed.

(* the posterior covariance is the inverse of the information matrix of the stacked system *)
Lemma key_cov_eq : cond_cov P H R = invmx W.
Proof. by rewrite -[LHS]mulmx1 -(mulmxV key_uW) mulmxA key_cov_W mul1mx. Qed.

Lemma key_cov_sym : (cond_cov P H R)^T = cond_cov P H R.
Proof. by rewrite key_cov_eq; apply: invmx_sym key_W_sym. Qed.

Lemma key_cov_pd : pd (cond_cov P H R).
Proof. by rewrite key_cov_eq; apply: pd_inv key_W_sym key_W_pd. Qed.

Lemma key_inv_cov : invmx (cond_cov P H R) = W.
Proof. by rewrite key_cov_eq invmxK. Qed.

(* the posterior mean solves the normal equations of the stacked system *)
Lemma key_normal : W *m xh = info_vec xb P z H R.
Proof.
rewrite /cond_mean (gain_info key_uS uR) mulmxDr !mulmxA key_W_cov mul1mx.
rewrite /info_vec /info_mx mulmxDl -addrA; congr (_ + _).
by rewrite -(mulmxA _ H xb) -mulmxDr addrCA subrr addr0.
Qed.

(* gradient of the cost at the posterior mean vanishes *)
Lemma key_gradient : invmx P *m (xh - xb) = H^T *m invmx R *m (z - H *m xh).
Proof.
have := key_normal; rewrite /info_mx /info_vec mulmxDl => eq.
rewrite !mulmxBr; apply/eqP; rewrite subr_eq addrAC eq_sym subr_eq eq_sym.
by rewrite [X in _ == X]addrC (mulmxA _ H xh) eq.
Qed.

Local Notation Mcost x :=
  ((x - xb)^T *m invmx P *m (x - xb) + (z - H *m x)^T *m invmx R *m (z - H *m x)).

Lemma wls_costE x : wls_cost xb P z H R x = (Mcost x) 0 0.
Proof. by rewrite /wls_cost /qform [RHS]mxE. Qed.

(* completing the square *)
Lemma key_split_mx x : Mcost x = Mcost xh + (x - xh)^T *m W *m (x - xh).
Proof.
have -> : x - xb = (xh - xb) + (x - xh) by rewrite [RHS]addrC addrA subrK.
have -> : z - H *m x = (z - H *m xh) - H *m (x - xh) by rewrite mulmxBr opprB addrA subrK.
by rewrite (complete_square (x - xh) (invmx_sym sP) (invmx_sym sR) key_gradient).
Qed.

Lemma key_split x : wls_cost xb P z H R x = wls_cost xb P z H R xh + qform W (x - xh).
Proof. by rewrite !wls_costE key_split_mx mxE. Qed.

(* the minimum value is the squared normalised innovation *)
Lemma key_min : wls_cost xb P z H R xh = qform (invmx S) e.
Proof.
have uS := key_uS.
have ea : xh - xb = K *m e by rewrite /cond_mean addrC addKr.
have HK : H *m K = 1%:M - R *m invmx S.
  rewrite /gain !mulmxA.
  have -> : H *m P *m H^T = S - R by rewrite /innov_cov addrK.
  by rewrite mulmxBl (mulmxV uS).
have er : z - H *m xh = R *m invmx S *m e.
  rewrite /cond_mean mulmxDr opprD addrA mulmxA HK mulmxBl mul1mx opprB addrC subrK. by [].
rewrite wls_costE ea er /qform.
have -> : (K *m e)^T *m invmx P *m (K *m e) = e^T *m (invmx S *m (H *m P *m H^T) *m invmx S) *m e.
  rewrite /gain !trmx_mul trmxK sP (invmx_sym key_S_sym) !mulmxA.
  by rewrite -(mulmxA _ P (invmx P)) (mulmxV uP) mulmx1.
have -> : (R *m invmx S *m e)^T *m invmx R *m (R *m invmx S *m e) = e^T *m (invmx S *m R *m invmx S) *m e.
  rewrite !trmx_mul sR (invmx_sym key_S_sym) !mulmxA.
  by rewrite -(mulmxA _ R (invmx R)) (mulmxV uR) mulmx1.
rewrite -mulmxDl -mulmxDr -mulmxDl -mulmxDr.
have -> : H *m P *m H^T + R = S by [].
by rewrite (mulVmx uS) mul1mx.
Qed.

(* KEY IDENTITY: for every x,
   |x - xb|^2_{P^-1} + |z - H x|^2_{R^-1} = |z - H xb|^2_{S^-1} + |x - x+|^2_{W} *)
Theorem key_identity x :
  wls_cost xb P z H R x = qform (invmx S) e + qform W (x - xh).
Proof. by rewrite key_split key_min. Qed.

(* single stage: the Kalman update is the weighted least squares solution of the stacked system
   [I; H] x = [xb; z], weight diag(P^-1, R^-1): normal equations, estimate, covariance, minimiser *)
Lemma wls_info_eq : wls_info P H R = W.
Proof.
rewrite /wls_info /info_mx tr_col_mx trmx1 mul_row_block !mulmx0 addr0 add0r mul_row_col.
by rewrite mul1mx mulmx1.
Qed.

Lemma wls_rhs_eq : wls_rhs xb P z H R = info_vec xb P z H R.
Proof.
rewrite /wls_rhs /info_vec tr_col_mx trmx1 mul_row_block !mulmx0 addr0 add0r mul_row_col.
by rewrite mul1mx.
Qed.

Theorem single_stage_wls :
  [/\ wls_est xb P z H R = xh,
      wls_cov P H R = cond_cov P H R,
      forall x, wls_cost xb P z H R xh <= wls_cost xb P z H R x
    & forall x, wls_cost xb P z H R x = wls_cost xb P z H R xh -> x = xh].
Proof.
split.
- by rewrite /wls_est wls_info_eq wls_rhs_eq -key_normal mulmxA (mulVmx key_uW) mul1mx.
- by rewrite /wls_cov wls_info_eq key_cov_eq.
- move=> x; rewrite (key_split x) ler_addl.
  exact: (pd_psd key_W_pd).
- move=> x; rewrite (key_split x) => /eqP; rewrite -subr_eq0 addrC addKr => /eqP q0.
  apply/eqP; rewrite -subr_eq0; apply/eqP; apply: (pd_pos_or_eq key_W_pd).
  by rewrite q0.
Qed.
End KeyIdentity.

(* ---------- N stages --------------------------------------------------------- *)
Section NStage.
Variable F : realFieldType.
Variable n : nat.
Variable md : nat -> nat.
Variable zs : forall k : nat, 'cV[F]_(md k).
Variable Hs : forall k : nat, 'M[F]_(md k, n).
Variable Rs : forall k : nat, 'M[F]_(md k).
Variables Phis Qds : nat -> 'M[F]_n.
Variable chols : forall k : nat, 'M[F]_(md k) -> 'M[F]_(md k).
Variables (xb : 'cV[F]_n) (P0 : 'M[F]_n).

Hypothesis sP0 : P0^T = P0.
Hypothesis pP0 : pd P0.
Hypothesis R_sym : forall k, (Rs k)^T = Rs k.
Hypothesis R_pd : forall k, pd (Rs k).
Hypothesis Q_sym : forall k, (Qds k)^T = Qds k.
Hypothesis Q_pd : forall k, pd (Qds k).

(* the recursion of the filter: N x (kalman.correct ; x <- Phi x, P <- Phi P Phi^T + Qd) *)
Local Notation run N := (@kf_run F n md zs Hs Rs Phis Qds chols N (xb, P0)).

(* The weighted least squares objective of the STACKED linear system in the unknowns
   x_0, ..., x_N:
       x_0           = xb      + e0,   e0  ~ (0, P0)
       z_k           = H_k x_k + v_k,  v_k ~ (0, R_k)        k < N
       0             = x_{k+1} - Phi_k x_k - w_k,  w_k ~ (0, Qd_k)   k < N
   (Gauss-Markov: weights = inverse covariances). *)
Fixpoint traj_cost (N : nat) (x : nat -> 'cV[F]_n) : F :=
  match N with
  | O => qform (invmx P0) (x 0%N - xb)
  | S N' => traj_cost N' x
            + qform (invmx (Rs N')) (zs N' - Hs N' *m x N')
            + qform (invmx (Qds N')) (x (S N') - Phis N' *m x N')
  end.

(* sum of the squared normalised innovations of the recursion *)
Fixpoint innov_cost (N : nat) : F :=
  match N with
  | O => 0
  | S N' => innov_cost N'
            + qform (invmx (innov_cov (run N').2 (Hs N') (Rs N'))) (zs N' - Hs N' *m (run N').1)
  end.

Lemma chain_eq (V : zmodType) (c A B C I E D : V) :
  A + B = I + E -> E + C = D -> c + A + B + C = c + I + D.
Proof. by move=> h1 h2; rewrite -(addrA c A) h1 -h2 !addrA. Qed.

Lemma traj_cost_ext N (x x' : nat -> 'cV[F]_n) :
  (forall k, (k <= N)%N -> x k = x' k) -> traj_cost N x = traj_cost N x'.
Proof.
elim: N => [|N IH] ext /=; first by rewrite ext.
rewrite IH; last by move=> k le; apply: ext; apply: leqW.
by rewrite !ext.
Qed.

(* one step of the recursion in terms of the conditional-Gaussian formulas *)
(* scipy.linalg.cholesky returns a lower factor of the innovation covariance of stage k *)
Definition chol_ok (k : nat) : Prop :=
  cholesky_factor (@chols k) (correct_S (run k).2 (Hs k) (Rs k)).

Lemma run_step N :
  chol_ok N -> (run N).2^T = (run N).2 -> pd (run N).2 ->
  let xc := cond_mean (run N).1 (run N).2 (zs N) (Hs N) (Rs N) in
  let Pc := cond_cov (run N).2 (Hs N) (Rs N) in
  run N.+1 = (Phis N *m xc, Phis N *m Pc *m (Phis N)^T + Qds N).
Proof.
move=> cF sP pP /=.
have pP' := pd_psd pP.
by have [-> -> _ _] := correct_is_conditional (run N).1 (zs N) sP pP' (R_sym N) (@R_pd N) cF.
Qed.

Definition stage_ok (N : nat) : Prop :=
  [/\ (run N).2^T = (run N).2, pd (run N).2,
      forall x, innov_cost N + qform (invmx (run N).2) (x N - (run N).1) <= traj_cost N x
    & forall y, exists x, x N = y /\
                          traj_cost N x = innov_cost N + qform (invmx (run N).2) (y - (run N).1)].

Lemma stage_ok_all N : (forall k, (k < N)%N -> chol_ok k) -> stage_ok N.
Proof.
elim: N => [_|N IH cok].
  split=> //= [x|y]; first by rewrite add0r.
  by exists (fun=> y); rewrite add0r.
have [sP pP lb att] : stage_ok N by apply: IH => k lt; apply: cok; apply: leqW.
have cN : chol_ok N by apply: cok.
set xh := (run N).1 in lb att *; set P := (run N).2 in sP pP lb att *.
pose xc := cond_mean xh P (zs N) (Hs N) (Rs N).
pose Pc := cond_cov P (Hs N) (Rs N).
have sPc : Pc^T = Pc := key_cov_sym (Hs N) sP pP (R_sym N) (@R_pd N).
have pPc : pd Pc := key_cov_pd (Hs N) sP pP (R_sym N) (@R_pd N).
have iPc : invmx Pc = info_mx P (Hs N) (Rs N) := key_inv_cov (Hs N) sP pP (R_sym N) (@R_pd N).
have eqrun : run N.+1 = (Phis N *m xc, Phis N *m Pc *m (Phis N)^T + Qds N) := run_step cN sP pP.
have sPn : (run N.+1).2^T = (run N.+1).2.
  by rewrite eqrun /= trmx_add !trmx_mul trmxK sPc Q_sym mulmxA.
have pPn : pd (run N.+1).2.
  by rewrite eqrun /=; apply: pd_add_psd (@Q_pd N); apply: psd_conj; apply: pd_psd.
(* the two key identities *)
have kmeas u : qform (invmx P) (u - xh) + qform (invmx (Rs N)) (zs N - Hs N *m u) =
               qform (invmx (innov_cov P (Hs N) (Rs N))) (zs N - Hs N *m xh) + qform (invmx Pc) (u - xc).
  by rewrite iPc; apply: (key_identity xh (zs N) (Hs N) sP pP (R_sym N) (@R_pd N) u).
have ktime y u : qform (invmx Pc) (u - xc) + qform (invmx (Qds N)) (y - Phis N *m u) =
                 qform (invmx (run N.+1).2) (y - (run N.+1).1) +
                 qform (info_mx Pc (Phis N) (Qds N)) (u - cond_mean xc Pc y (Phis N) (Qds N)).
  by rewrite eqrun; apply: (key_identity xc y (Phis N) sPc pPc (Q_sym N) (@Q_pd N) u).
have pW' : psd (info_mx Pc (Phis N) (Qds N)).
  exact/pd_psd/(key_W_pd (Phis N) sPc pPc (Q_sym N) (@Q_pd N)).
split=> // [x|y].
- (* lower bound *)
  rewrite /= -/xh -/P.
  have := lb x; rewrite -(ler_add2r (qform (invmx (Rs N)) (zs N - Hs N *m x N))).
  rewrite -(ler_add2r (qform (invmx (Qds N)) (x N.+1 - Phis N *m x N))) => lb'.
  apply: le_trans lb'.
  rewrite -!addrA (addrA (qform (invmx P) _)) kmeas -!addrA ler_add2l ler_add2l ktime.
  by rewrite ler_addl; apply: pW'.
- (* attained *)
  have [us us_def] : exists us, us = cond_mean xc Pc y (Phis N) (Qds N) by eexists.
  have [x' [x'N cost']] := att us.
  exists (fun k => if (k <= N)%N then x' k else y); split; first by rewrite ltnn.
  rewrite [traj_cost N.+1 _]/= [innov_cost N.+1]/= leqnn ltnn x'N -/xh -/P.
  rewrite (@traj_cost_ext N _ x'); last by move=> k ->.
  rewrite cost'.
  have k2 := ktime y us; rewrite -us_def subrr qform0 addr0 in k2.
  exact: chain_eq (kmeas us) k2.
Qed.

(* Tier B.  For positive-definite P0, R_k, Qd_k and ANY Phi_k, H_k, any dimensions, any number N of
   stages: the state (x_N, P_N) produced by the recursion of the generated code is the one-shot
   weighted least squares (Gauss-Markov) solution of the stacked system for its last block:
   the stacked objective, minimised over x_0 .. x_{N-1} for fixed x_N = y, equals
       (sum of squared normalised innovations) + |y - x_N^|^2 weighted by P_N^-1 ;
   hence x_N^ is the x_N-component of every minimiser and P_N^-1 is the information matrix of x_N. *)
Theorem kalman_eq_batch_pd N :
  (forall k, (k < N)%N -> chol_ok k) ->
  let xN := (run N).1 in let PN := (run N).2 in
  [/\ PN^T = PN /\ pd PN,
      forall x, innov_cost N + qform (invmx PN) (x N - xN) <= traj_cost N x,
      forall y, exists x, x N = y /\ traj_cost N x = innov_cost N + qform (invmx PN) (y - xN),
      (forall x, innov_cost N <= traj_cost N x) /\ (exists x, x N = xN /\ traj_cost N x = innov_cost N)
    & forall x, traj_cost N x = innov_cost N -> x N = xN].
Proof.
move=> cok; have [sP pP lb att] := stage_ok_all cok.
have pPi : pd (invmx (run N).2) := pd_inv sP pP.
split=> //.
- split.
  + move=> x; apply: le_trans (lb x); rewrite ler_addl; exact: (pd_psd pPi).
  + have [x [xN cx]] := att (run N).1; exists x; split=> //.
    by rewrite cx subrr qform0 addr0.
- move=> x cx; have := lb x; rewrite cx ger_addl => le0.
  by apply/eqP; rewrite -subr_eq0; apply/eqP; apply: (pd_pos_or_eq pPi).
Qed.

End NStage.

(* two-stage composition spelled out (N = 2): prior, measurement 0, transition 0, measurement 1,
   transition 1 -- instance of the general theorem, kept as an explicit corollary *)
Corollary kalman_eq_batch_two_stage
  (F : realFieldType) (n : nat) (md : nat -> nat)
  (zs : forall k : nat, 'cV[F]_(md k)) (Hs : forall k : nat, 'M[F]_(md k, n))
  (Rs : forall k : nat, 'M[F]_(md k)) (Phis Qds : nat -> 'M[F]_n)
  (chols : forall k : nat, 'M[F]_(md k) -> 'M[F]_(md k)) (xb : 'cV[F]_n) (P0 : 'M[F]_n) :
  P0^T = P0 -> pd P0 ->
  (forall k, (Rs k)^T = Rs k) -> (forall k, pd (Rs k)) ->
  (forall k, (Qds k)^T = Qds k) -> (forall k, pd (Qds k)) ->
  (forall k, (k < 2)%N -> chol_ok zs Hs Rs Phis Qds chols xb P0 k) ->
  let s2 := @kf_run F n md zs Hs Rs Phis Qds chols 2 (xb, P0) in
  forall x : nat -> 'cV[F]_n,
    traj_cost zs Hs Rs Phis Qds xb P0 2 x = innov_cost zs Hs Rs Phis Qds chols xb P0 2 -> x 2%N = s2.1.
Proof.
move=> sP0 pP0 Rsym Rpd Qsym Qpd cok s2 x.
by have [_ _ _ _ h] := @kalman_eq_batch_pd F n md zs Hs Rs Phis Qds chols xb P0 sP0 pP0 Rsym Rpd Qsym Qpd 2 cok; apply: h.
Qed.

(* non-vacuity: one stage, 1 x 1: P0 = 3, H = 1, R = 1 (S = 4, L = 2), Phi = 1, Qd = 1 *)
Lemma example_batch (F : realFieldType) :
  let md := fun _ : nat => 1%N in
  let zs := fun _ : nat => (0 : 'cV[F]_1) in
  let Hs := fun _ : nat => (1%:M : 'M[F]_1) in
  let Rs := fun _ : nat => (1%:M : 'M[F]_1) in
  let Phis := fun _ : nat => (1%:M : 'M[F]_1) in
  let Qds := fun _ : nat => (1%:M : 'M[F]_1) in
  let chols := fun (_ : nat) (_ : 'M[F]_1) => (2%:R%:M : 'M[F]_1) in
  let P0 : 'M[F]_1 := 3%:R%:M in
  [/\ P0^T = P0 /\ pd P0, (forall k, (Rs k)^T = Rs k) /\ (forall k, pd (Rs k)),
      (forall k, (Qds k)^T = Qds k) /\ (forall k, pd (Qds k))
    & forall k, (k < 1)%N -> @chol_ok F 1 md zs Hs Rs Phis Qds chols 0 P0 k].
Proof.
move=> md zs Hs Rs Phis Qds chols P0.
have [[sP _] [sR pR] cF _] := example_correct F.
split.
- by split; [exact: sP | apply: pd_scalar; rewrite ltr0n].
- by split=> k; [rewrite trmx1 | apply: pd_scalar; rewrite ltr01].
- by split=> k; [rewrite trmx1 | apply: pd_scalar; rewrite ltr01].
- by case=> // _; exact: cF.
Qed.

(* non-vacuity of the hypotheses of [kalman_flow_spec] over ANY real field (no square roots needed):
   a measurement block that observes nothing (H = 0), R = 1: every innovation covariance is 1.
   (Over a field with square roots -- the reals -- the Cholesky hypothesis holds for every H.) *)
Lemma example_flow_hyps (F : realFieldType) (ni ng na : nat) :
  let mdim := fun _ : nat => 1%N in
  let Hf := fun (_ : nat) (_ : Q) => (0 : 'M[F]_(1, ni)) in
  let Rf := fun _ : nat => (1%:M : 'M[F]_1) in
  let chol := fun (_ : nat) (_ : 'M[F]_1) => (1%:M : 'M[F]_1) in
  [/\ forall k, (Rf k)^T = Rf k, forall k, pd (Rf k)
    & forall k m (P : 'M[F]_(ni + (ng + na))), P^T = P -> psd P ->
        cholesky_factor (chol k) (correct_S P (@h_full F ni ng na mdim Hf k m) (Rf k))].
Proof.
move=> mdim Hf Rf chol; split=> [k|k|k m P _ _].
- by rewrite trmx1.
- by apply: pd_scalar; rewrite ltr01.
- rewrite /h_full row_mx0 correct_S_eq /innov_cov !mul0mx add0r.
  by split; [exact: is_lower_scalar | rewrite mul1mx trmx1].
Qed.

(* ========================================================================= *)
(*  Part D : singular process noise -- the noise-parametrised batch problem   *)
(* ========================================================================= *)
Section GramFacts.
Variable F : realFieldType.

Lemma psd_gram (n p : nat) (G : 'M[F]_(n, p)) : psd (G *m G^T).
Proof.
have := @psd_conj F _ _ (1%:M : 'M[F]_p) G (@psd_scalar F p 1 ler01).
by rewrite mulmx1.
Qed.

Lemma sym_gram (n p : nat) (G : 'M[F]_(n, p)) : (G *m G^T)^T = G *m G^T.
Proof. by rewrite trmx_mul trmxK. Qed.

(* a congruence by an invertible matrix keeps positive definiteness *)
Lemma pd_conj_unit (n : nat) (Phi P : 'M[F]_n) : Phi \in unitmx -> pd P -> pd (Phi *m P *m Phi^T).
Proof.
move=> uPhi pP x nz.
have nz' : Phi^T *m x != 0.
  apply: contra nz => /eqP e.
  have uT : Phi^T \in unitmx by rewrite unitmx_tr.
  by rewrite -[x]mul1mx -(mulVmx uT) -mulmxA e mulmx0.
by have := pP _ nz'; rewrite trmx_mul trmxK !mulmxA.
Qed.

(* S = Phi P Phi^T + Gam Gam^T is positive definite for invertible Phi, PD P and ANY Gam *)
Lemma prop_cov_pd (n p : nat) (Phi P : 'M[F]_n) (Gam : 'M[F]_(n, p)) :
  Phi \in unitmx -> pd P -> pd (Phi *m P *m Phi^T + Gam *m Gam^T).
Proof.
move=> uPhi pP; rewrite addrC; apply: pd_add_psd; first exact: psd_gram.
exact: pd_conj_unit.
Qed.

Lemma quad_tr (k : nat) (A : 'M[F]_k) (u v : 'cV[F]_k) :
  A^T = A -> v^T *m A *m u = (u^T *m A *m v)^T.
Proof. by move=> sA; rewrite !trmx_mul trmxK sA mulmxA. Qed.

Lemma dot_tr (k : nat) (u v : 'cV[F]_k) : v^T *m u = (u^T *m v)^T.
Proof. by rewrite trmx_mul trmxK. Qed.

Lemma zmod_arith2 (V : zmodType) (t1 t2 u1 u2 v1 v2 q1 q2 : V) :
  t1 + (u1 + u2) + q1 + (t2 + (v1 + v2) + q2) = t1 + t2 + ((u1 + v1) + (u2 + v2)) + (q1 + q2).
Proof. by rewrite addrACA (addrACA t1) (addrACA u1). Qed.

Lemma qform1 (p : nat) (w : 'cV[F]_p) : qform 1%:M w = (w^T *m w) 0 0.
Proof. by rewrite /qform mulmx1. Qed.
End GramFacts.

(* ---- the constrained completing-the-square identity of the propagation step ---- *)
Section PropIdentity.
Variable F : realFieldType.
Variables n p : nat.
Variables (P Phi : 'M[F]_n) (Gam : 'M[F]_(n, p)).
Hypothesis sP : P^T = P.
Hypothesis pP : pd P.
Hypothesis uPhi : Phi \in unitmx.

Local Notation S := (Phi *m P *m Phi^T + Gam *m Gam^T).
Let uP := pd_unitmx pP.

Lemma prop_S_pd : pd S.
Proof. exact: prop_cov_pd. Qed.

Lemma prop_S_sym : S^T = S.
Proof. by rewrite trmx_add !trmx_mul !trmxK sP mulmxA. Qed.

Lemma prop_uS : S \in unitmx.
Proof. exact: pd_unitmx prop_S_pd. Qed.

(* the minimiser of |d|^2_{P^-1} + |w|^2 subject to Phi d + Gam w = r *)
Definition prop_dopt (r : 'cV[F]_n) : 'cV[F]_n := P *m Phi^T *m invmx S *m r.
Definition prop_wopt (r : 'cV[F]_n) : 'cV[F]_p := Gam^T *m invmx S *m r.

Lemma prop_opt_feasible r : Phi *m prop_dopt r + Gam *m prop_wopt r = r.
Proof.
by rewrite /prop_dopt /prop_wopt !mulmxA -mulmxDl -mulmxDl (mulmxV prop_uS) mul1mx.
Qed.

(* matrix (1 x 1) form *)
Lemma prop_identity_mx (d : 'cV[F]_n) (w : 'cV[F]_p) (r : 'cV[F]_n) :
  Phi *m d + Gam *m w = r ->
  d^T *m invmx P *m d + w^T *m w =
  r^T *m invmx S *m r
  + ((d - prop_dopt r)^T *m invmx P *m (d - prop_dopt r) + (w - prop_wopt r)^T *m (w - prop_wopt r)).
Proof.
move=> cons.
set a := prop_dopt r; set b := prop_wopt r; set e := d - a; set f := w - b.
have uS := prop_uS; have sSi : (invmx S)^T = invmx S := invmx_sym prop_S_sym.
have sPi : (invmx P)^T = invmx P := invmx_sym sP.
have ef0 : Phi *m e + Gam *m f = 0.
  rewrite /e /f !mulmxBr addrACA cons -opprD prop_opt_feasible subrr. by [].
have -> : d = a + e by rewrite /e addrC subrK.
have -> : w = b + f by rewrite /f addrC subrK.
rewrite quad_shift.
have -> : (b + f)^T *m (b + f) = b^T *m b + (b^T *m f + f^T *m b) + f^T *m f.
  by rewrite trmx_add !mulmxDl !mulmxDr !addrA.
(* the row vectors a^T P^-1 and b^T *)
have aP : a^T *m invmx P = r^T *m invmx S *m Phi.
  rewrite /a /prop_dopt !trmx_mul trmxK sP sSi !mulmxA. by rewrite -(mulmxA _ P (invmx P)) (mulmxV uP) mulmx1.
have bT : b^T = r^T *m invmx S *m Gam.
  by rewrite /b /prop_wopt !trmx_mul trmxK sSi !mulmxA.
(* cross terms vanish *)
have c1 : a^T *m invmx P *m e + b^T *m f = 0.
  by rewrite aP bT -!mulmxA -mulmxDr -mulmxDr ef0 !mulmx0.
have c2 : e^T *m invmx P *m a + f^T *m b = 0.
  have t1 : e^T *m invmx P *m a = (a^T *m invmx P *m e)^T := quad_tr a e sPi.
  have t2 : f^T *m b = (b^T *m f)^T := dot_tr b f.
  by rewrite t1 t2 -trmx_add c1 trmx0.
(* the squares of the optimum add up to r^T S^-1 r *)
have sq : a^T *m invmx P *m a + b^T *m b = r^T *m invmx S *m r.
  by rewrite aP bT -(mulmxA _ Phi a) -(mulmxA _ Gam b) -mulmxDr /a /b prop_opt_feasible.
set t1 := a^T *m invmx P *m a; set t2 := b^T *m b.
set u1 := a^T *m invmx P *m e; set u2 := e^T *m invmx P *m a; set v1 := b^T *m f; set v2 := f^T *m b.
set q1 := e^T *m invmx P *m e; set q2 := f^T *m f.
rewrite -sq -/t1 -/t2.
rewrite (zmod_arith2 t1 t2 u1 u2 v1 v2 q1 q2).
by rewrite /u1 /v1 /u2 /v2 c1 c2 !addr0.
Qed.

(* PROPAGATION IDENTITY: for every (d, w) with Phi d + Gam w = r,
   |d|^2_{P^-1} + |w|^2 = r^T S^-1 r + |d - d*|^2_{P^-1} + |w - w*|^2 *)
Theorem prop_identity (d : 'cV[F]_n) (w : 'cV[F]_p) (r : 'cV[F]_n) :
  Phi *m d + Gam *m w = r ->
  qform (invmx P) d + qform 1%:M w =
  qform (invmx S) r + (qform (invmx P) (d - prop_dopt r) + qform 1%:M (w - prop_wopt r)).
Proof.
move=> cons; rewrite !qform1 /qform.
transitivity ((d^T *m invmx P *m d + w^T *m w) 0 0); first by rewrite [RHS]mxE.
by rewrite (prop_identity_mx cons) [LHS]mxE; congr (_ + _); rewrite [LHS]mxE.
Qed.
End PropIdentity.

(* ---- N stages with merely PSD process noise Qd_k = Gam_k Gam_k^T ------------------- *)
Section NoiseStage.
Variable F : realFieldType.
Variables n p : nat.
Variable md : nat -> nat.
Variable zs : forall k : nat, 'cV[F]_(md k).
Variable Hs : forall k : nat, 'M[F]_(md k, n).
Variable Rs : forall k : nat, 'M[F]_(md k).
Variable Phis : nat -> 'M[F]_n.
Variable Gams : nat -> 'M[F]_(n, p).
Variable chols : forall k : nat, 'M[F]_(md k) -> 'M[F]_(md k).
Variables (xb : 'cV[F]_n) (P0 : 'M[F]_n).

Hypothesis sP0 : P0^T = P0.
Hypothesis pP0 : pd P0.
Hypothesis R_sym : forall k, (Rs k)^T = Rs k.
Hypothesis R_pd : forall k, pd (Rs k).
Hypothesis Phi_unit : forall k, Phis k \in unitmx.

Local Notation Qds := (gram_Qd Gams).
Local Notation run N := (@kf_run F n md zs Hs Rs Phis Qds chols N (xb, P0)).
Local Notation xs := (nstate Phis Gams).
Local Notation J := (noise_cost zs Hs Rs Phis Gams xb P0).
Local Notation icost := (innov_cost zs Hs Rs Phis Qds chols xb P0).
Local Notation cok := (chol_ok zs Hs Rs Phis Qds chols xb P0).

Lemma nstate_ext x0 (w w' : nat -> 'cV[F]_p) k :
  (forall j, (j < k)%N -> w j = w' j) -> xs x0 w k = xs x0 w' k.
Proof.
elim: k => [|k IH] ext //=.
by rewrite IH ?ext // => j lt; apply: ext; apply: leqW.
Qed.

Lemma noise_cost_ext N x0 (w w' : nat -> 'cV[F]_p) :
  (forall j, (j < N)%N -> w j = w' j) -> J N x0 w = J N x0 w'.
Proof.
elim: N => [|N IH] ext //=.
rewrite IH; last by move=> j lt; apply: ext; apply: leqW.
rewrite (@nstate_ext x0 w w' N); last by move=> j lt; apply: ext; apply: leqW.
by rewrite ext.
Qed.

Lemma chain_le (c A B C I E D G JN : F) :
  c + A <= JN -> A + B = I + E -> E + C = D + G -> 0 <= G -> c + I + D <= JN + B + C.
Proof.
move=> h1 e1 e2 g0.
apply: (@le_trans _ _ (c + A + B + C)); last by rewrite !ler_add2r.
have -> : c + A + B + C = c + I + D + G by rewrite -(addrA c A) e1 -!addrA e2 !addrA.
by rewrite ler_addl.
Qed.

Definition nstage_ok (N : nat) : Prop :=
  [/\ (run N).2^T = (run N).2, pd (run N).2,
      forall x0 w, icost N + qform (invmx (run N).2) (xs x0 w N - (run N).1) <= J N x0 w
    & forall y, exists x0 w, xs x0 w N = y /\
                             J N x0 w = icost N + qform (invmx (run N).2) (y - (run N).1)].

Lemma nstage_ok_all N : (forall k, (k < N)%N -> cok k) -> nstage_ok N.
Proof.
elim: N => [_|N IH ck].
  split=> //= [x0 w|y]; first by rewrite add0r.
  by exists y, (fun=> 0); rewrite add0r.
have [sP pP lb att] : nstage_ok N by apply: IH => k lt; apply: ck; apply: leqW.
have cN : cok N by apply: ck.
set xh := (run N).1 in lb att *; set P := (run N).2 in sP pP lb att *.
pose xc := cond_mean xh P (zs N) (Hs N) (Rs N).
pose Pc := cond_cov P (Hs N) (Rs N).
have sPc : Pc^T = Pc := key_cov_sym (Hs N) sP pP (R_sym N) (@R_pd N).
have pPc : pd Pc := key_cov_pd (Hs N) sP pP (R_sym N) (@R_pd N).
have iPc : invmx Pc = info_mx P (Hs N) (Rs N) := key_inv_cov (Hs N) sP pP (R_sym N) (@R_pd N).
have eqrun : run N.+1 = (Phis N *m xc, Phis N *m Pc *m (Phis N)^T + Gams N *m (Gams N)^T).
  exact: (run_step R_sym R_pd cN sP pP).
have sPn : (run N.+1).2^T = (run N.+1).2.
  by rewrite eqrun /=; apply: prop_S_sym.
have pPn : pd (run N.+1).2.
  by rewrite eqrun /=; apply: prop_cov_pd.
have kmeas u : qform (invmx P) (u - xh) + qform (invmx (Rs N)) (zs N - Hs N *m u) =
               qform (invmx (innov_cov P (Hs N) (Rs N))) (zs N - Hs N *m xh) + qform (invmx Pc) (u - xc).
  by rewrite iPc; apply: (key_identity xh (zs N) (Hs N) sP pP (R_sym N) (@R_pd N) u).
have kprop u ww : qform (invmx Pc) (u - xc) + qform 1%:M ww =
     qform (invmx (run N.+1).2) (Phis N *m u + Gams N *m ww - (run N.+1).1) +
     (qform (invmx Pc) (u - xc - prop_dopt Pc (Phis N) (Gams N) (Phis N *m u + Gams N *m ww - Phis N *m xc)) +
      qform 1%:M (ww - prop_wopt Pc (Phis N) (Gams N) (Phis N *m u + Gams N *m ww - Phis N *m xc))).
  rewrite eqrun /=; apply: (prop_identity sPc pPc (Phi_unit N)).
  by rewrite mulmxBr addrAC.
have q1_ge0 (v : 'cV[F]_p) : 0 <= qform 1%:M v.
  by apply: (@psd_scalar F p 1 ler01).
have qPc_ge0 (v : 'cV[F]_n) : 0 <= qform (invmx Pc) v.
  exact: (pd_psd (pd_inv sPc pPc)).
split=> // [x0 w|y].
- (* lower bound *)
  rewrite [J N.+1 x0 w]/= [icost N.+1]/= -/xh -/P.
  apply: (chain_le (lb x0 w) (kmeas (xs x0 w N)) (kprop (xs x0 w N) (w N))).
  by apply: addr_ge0.
- (* attained *)
  pose r := y - Phis N *m xc.
  have [us us_def] : exists us, us = xc + prop_dopt Pc (Phis N) (Gams N) r by eexists.
  have [ws ws_def] : exists ws, ws = prop_wopt Pc (Phis N) (Gams N) r by eexists.
  have feas : Phis N *m us + Gams N *m ws = y.
    rewrite us_def ws_def mulmxDr -addrA (prop_opt_feasible (Gams N) pPc (Phi_unit N)) /r addrC subrK. by [].
  have [x0 [w' [xN cost']]] := att us.
  pose w := fun k => if (k < N)%N then w' k else ws.
  have wN : w N = ws by rewrite /w ltnn.
  have xsN : xs x0 w N = us by rewrite -xN; apply: nstate_ext => j lt; rewrite /w lt.
  exists x0, w; split; first by rewrite /= xsN wN.
  rewrite [J N.+1 x0 w]/= [icost N.+1]/= -/xh -/P xsN wN.
  rewrite (@noise_cost_ext N x0 w w'); last by move=> j lt; rewrite /w lt.
  rewrite cost'.
  have k2 := kprop us ws; rewrite feas -/r in k2.
  have z1 : us - xc - prop_dopt Pc (Phis N) (Gams N) r = 0 by rewrite us_def [xc + _]addrC addrK subrr.
  have z2 : ws - prop_wopt Pc (Phis N) (Gams N) r = 0 by rewrite ws_def subrr.
  rewrite z1 z2 !qform0 !addr0 in k2.
  exact: chain_eq (kmeas us) k2.
Qed.

(* Tier B for the REAL class of systems: P0, R_k symmetric positive definite, Phi_k invertible, Gam_k
   ARBITRARY (Qd_k = Gam_k Gam_k^T only PSD, any rank, also 0).  The batch problem has the free variables
   (x_0, w_0 .. w_{N-1}); its objective uses no inverse of Qd.  The cost-to-arrive at x_N = y is
   (sum of squared normalised innovations) + |y - xN|^2_{PN^-1} with (xN, PN) the state of the recursion of
   the generated code: xN is the final state of every minimiser, PN^-1 its information matrix. *)
Theorem kalman_eq_batch_singular_noise N :
  (forall k, (k < N)%N -> cok k) ->
  let xN := (run N).1 in let PN := (run N).2 in
  [/\ PN^T = PN /\ pd PN,
      forall x0 w, icost N + qform (invmx PN) (xs x0 w N - xN) <= J N x0 w,
      forall y, exists x0 w, xs x0 w N = y /\ J N x0 w = icost N + qform (invmx PN) (y - xN),
      (forall x0 w, icost N <= J N x0 w) /\ (exists x0 w, xs x0 w N = xN /\ J N x0 w = icost N)
    & forall x0 w, J N x0 w = icost N -> xs x0 w N = xN].
Proof.
move=> ck; have [sP pP lb att] := nstage_ok_all ck.
have pPi : pd (invmx (run N).2) := pd_inv sP pP.
split=> //.
- split.
  + move=> x0 w; apply: le_trans (lb x0 w); rewrite ler_addl; exact: (pd_psd pPi).
  + have [x0 [w [xN cx]]] := att (run N).1; exists x0, w; split=> //.
    by rewrite cx subrr qform0 addr0.
- move=> x0 w cx; have := lb x0 w; rewrite cx ger_addl => le0.
  by apply/eqP; rewrite -subr_eq0; apply/eqP; apply: (pd_pos_or_eq pPi).
Qed.
End NoiseStage.

(* non-vacuity with a SINGULAR process noise: two states, the noise drives only the first one
   (Gam = (1; 0): rank 1 < 2, Qd = Gam Gam^T singular), one stage: P0 = 3 I, H = (1 0), R = 1 (S = 4, L = 2),
   Phi = I *)
Lemma example_batch_singular (F : realFieldType) :
  let md := fun _ : nat => 1%N in
  let zs := fun _ : nat => (0 : 'cV[F]_1) in
  let Hs := fun _ : nat => (row_mx 1%:M 0 : 'M[F]_(1, 1 + 1)) in
  let Rs := fun _ : nat => (1%:M : 'M[F]_1) in
  let Phis := fun _ : nat => (1%:M : 'M[F]_(1 + 1)) in
  let Gams := fun _ : nat => (col_mx 1%:M 0 : 'M[F]_(1 + 1, 1)) in
  let chols := fun (_ : nat) (_ : 'M[F]_1) => (2%:R%:M : 'M[F]_1) in
  let P0 : 'M[F]_(1 + 1) := 3%:R%:M in
  [/\ P0^T = P0 /\ pd P0, (forall k, (Rs k)^T = Rs k) /\ (forall k, pd (Rs k)),
      forall k, Phis k \in unitmx,
      forall k, (\rank (Gams k) < 1 + 1)%N /\ (\rank (gram_Qd Gams k) < 1 + 1)%N
    & forall k, (k < 1)%N -> @chol_ok F (1 + 1) md zs Hs Rs Phis (gram_Qd Gams) chols 0 P0 k].
Proof.
move=> md zs Hs Rs Phis Gams chols P0; split.
- by split; [rewrite /P0 tr_scalar_mx | apply: pd_scalar; rewrite ltr0n].
- by split=> k; [rewrite trmx1 | apply: pd_scalar; rewrite ltr01].
- by move=> k; rewrite unitmx1.
- move=> k; have r1 : (\rank (Gams k) <= 1)%N by apply: rank_leq_col.
  split; first exact: leq_ltn_trans r1 _.
  by apply: leq_ltn_trans (mxrankM_maxl _ _) _; apply: leq_ltn_trans r1 _.
- case=> // _; rewrite /chol_ok /= correct_S_eq /innov_cov /P0.
  have -> : (row_mx 1%:M 0 : 'M[F]_(1, 1 + 1)) *m (3%:R)%:M *m (row_mx 1%:M 0 : 'M[F]_(1, 1 + 1))^T + 1%:M
            = (4%:R)%:M :> 'M[F]_1.
    rewrite mul_mx_scalar -scalemxAl tr_row_mx mul_row_col trmx1 mulmx1 trmx0 mulmx0 addr0.
    by rewrite scalemx1 -raddfD /= -[1]/(1%:R) -natrD.
  split; first exact: is_lower_scalar.
  by rewrite tr_scalar_mx -scalar_mxM -natrM.
Qed.

(* the propagation step in one statement *)
Lemma prop_identity_full (F : realFieldType) (n p : nat) (P Phi : 'M[F]_n) (Gam : 'M[F]_(n, p)) :
  P^T = P -> pd P -> Phi \in unitmx ->
  pd (Phi *m P *m Phi^T + Gam *m Gam^T) /\
  (forall r : 'cV[F]_n, Phi *m prop_dopt P Phi Gam r + Gam *m prop_wopt P Phi Gam r = r) /\
  forall (d : 'cV[F]_n) (w : 'cV[F]_p) (r : 'cV[F]_n),
  Phi *m d + Gam *m w = r ->
  qform (invmx P) d + qform 1%:M w =
  qform (invmx (Phi *m P *m Phi^T + Gam *m Gam^T)) r +
  (qform (invmx P) (d - prop_dopt P Phi Gam r) + qform 1%:M (w - prop_wopt P Phi Gam r)).
Proof.
move=> sP pP uPhi; split; first exact: prop_cov_pd.
split; first exact: prop_opt_feasible.
exact: prop_identity.
Qed.
