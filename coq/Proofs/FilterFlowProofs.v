(* ------------------------------------------------------------------------- *)
(*  C11 — proofs about Model/FilterFlow.v                                       *)
(*                                                                             *)
(*  Part A (lists, Q)  the fold of the event trace of the feedforward loop is   *)
(*                     the textbook recursion on the filter's time grid         *)
(*  Part B (MathComp)  the operations: H_full embedding, every correction is    *)
(*                     the conditional-Gaussian update, covariance invariants,  *)
(*                     block layout of the assembly functions                   *)
(*  Part C (MathComp)  Tier B: the recursion equals the one-shot weighted       *)
(*                     least-squares (Gauss-Markov) solution, positive-definite *)
(*                     data, any number of stages                               *)
(* ------------------------------------------------------------------------- *)
From Coq Require Import List QArith Bool Arith Lia Lqa Sorted.
From PV Require Import Model.FeedbackSched Model.FeedforwardSched Model.FilterFlow Proofs.SchedProofs.
Import ListNotations.
Open Scope Q_scope.

(* ========================================================================= *)
(*  Part A                                                                   *)
(* ========================================================================= *)

Section FlowFacts.
  Variable state : Type.
  Variable corr : nat -> Q -> Q -> state -> state.
  Variable prop : nat -> nat -> state -> state.

  Local Notation ev := (ff_event corr prop).

  (* the sensor loop at one epoch *)
  Lemma flow_sensor_loop : forall m t (l : list (nat * list Q)) s acc,
    fold_left ev
      (flat_map (fun ks : nat * list Q =>
                   if stamped m (snd ks) then [Innov (fst ks) m t] else []) l) (s, acc) =
    (fold_left (fun s ks => if stamped m (snd ks) then corr (fst ks) m t s else s) l s, acc).
  Proof.
    intros m t l. induction l as [|ks l IH]; intros s acc; [reflexivity|].
    cbn [flat_map fold_left]. rewrite fold_left_app.
    destruct (stamped m (snd ks)); cbn [fold_left ff_event fst snd]; apply IH.
  Qed.

  Lemma flow_epoch : forall sensors m t s acc,
    fold_left ev (epoch_events sensors m t) (s, acc) = (corr_epoch corr sensors t s m, acc).
  Proof. intros. unfold epoch_events, corr_epoch. apply flow_sensor_loop. Qed.

  (* the inner while: all epochs of the prefix, in order *)
  Lemma flow_pre : forall sensors t pre s acc,
    fold_left ev (flat_map (fun m => epoch_events sensors m t) pre) (s, acc) =
    (fold_left (corr_epoch corr sensors t) pre s, acc).
  Proof.
    intros sensors t pre. induction pre as [|m pre IH]; intros s acc; [reflexivity|].
    cbn [flat_map fold_left]. rewrite fold_left_app, flow_epoch. apply IH.
  Qed.

  (* the accumulator of recorded rows only grows at the end *)
  Lemma kalman_grid_acc : forall times sensors epochs steps s,
    length (snd (kalman_grid corr prop times sensors epochs steps s)) = length steps.
  Proof.
    intros times sensors epochs steps. induction steps as [|[i j] r IH]; intro s; [reflexivity|].
    cbn [kalman_grid snd length]. now rewrite IH.
  Qed.

  (* a generic invariant principle for the fold: if Inv is preserved by both
     operations, every recorded state and the final state satisfy it; and two
     families of operations that agree on Inv-states produce the same flow *)
  Variable Inv : state -> Prop.
  Variable corr' : nat -> Q -> Q -> state -> state.
  Variable prop' : nat -> nat -> state -> state.
  Hypothesis corr_inv : forall k m t s, Inv s -> Inv (corr k m t s) /\ corr' k m t s = corr k m t s.
  Hypothesis prop_inv : forall i j s, Inv s -> Inv (prop i j s) /\ prop' i j s = prop i j s.

  Lemma ff_flow_inv_gen : forall tr s acc,
    Inv s -> Forall (fun r => Inv (snd r)) acc ->
    let r := fold_left ev tr (s, acc) in
    Inv (fst r) /\ Forall (fun r => Inv (snd r)) (snd r) /\
    fold_left (ff_event corr' prop') tr (s, acc) = r.
  Proof.
    induction tr as [|e tr IH]; intros s acc Hs Hacc; [cbn; auto|].
    cbn [fold_left]. destruct e as [k m t|t|a b|i j| |]; cbn [ff_event fst snd].
    - destruct (corr_inv k m t s Hs) as [H1 H2]. rewrite H2. now apply IH.
    - apply IH; [assumption|]. apply Forall_app. split; [assumption|]. now repeat constructor.
    - now apply IH.
    - destruct (prop_inv i j s Hs) as [H1 H2]. rewrite H2. now apply IH.
    - now apply IH.
    - now apply IH.
  Qed.

  Lemma ff_flow_inv : forall tr s0, Inv s0 ->
    Inv (fst (ff_flow corr prop tr s0)) /\
    Forall (fun r => Inv (snd r)) (snd (ff_flow corr prop tr s0)) /\
    ff_flow corr' prop' tr s0 = ff_flow corr prop tr s0.
  Proof. intros tr s0 H. unfold ff_flow. apply ff_flow_inv_gen; [assumption|constructor]. Qed.
End FlowFacts.

(* ---------- the loop of run_feedforward_filter ----------------------------- *)

Section LoopFlow.
  Variable state : Type.
  Variable corr : nat -> Q -> Q -> state -> state.
  Variable prop : nat -> nat -> state -> state.
  Variable add_step : Q -> Q.
  Variable times : list Q.
  Variable sensors : list (list Q).
  Variable epochs : list Q.
  Hypothesis Hsorted : sorted times.

  Local Notation len := (length times).
  Local Notation ev := (ff_event corr prop).
  Local Notation grid := (kalman_grid corr prop times sensors epochs).
  Local Notation due := (filter (fun m => Qltb m (nth (len - 1) times 0))).

  (* the epochs of row `index` are exactly the prefix the inner loop consumes *)
  Lemma row_epochs_prefix : forall index done pre p' bound,
    epochs = done ++ pre ++ p' ->
    bound = nth (index + 1) times 0 ->
    Forall (fun m => m < nth index times 0) done ->
    Forall (fun m => nth index times 0 <= m) pre ->
    Forall (fun m => m < bound) pre ->
    Forall (fun m => bound <= m) p' ->
    row_epochs times epochs index = pre.
  Proof.
    intros index done pre p' bound He Hb Hdone Hlow Hpre Hp'. subst bound.
    unfold row_epochs. rewrite He, !filter_app.
    rewrite (filter_all_false _ done), (filter_all_true _ pre), (filter_all_false _ p').
    - now rewrite app_nil_r.
    - intros x Hx. rewrite Forall_forall in Hp'. specialize (Hp' x Hx).
      apply andb_false_iff. right. now apply Qltb_false.
    - intros x Hx. rewrite Forall_forall in Hlow, Hpre.
      apply andb_true_iff. split; [apply Qle_bool_iff; auto|apply Qltb_true; auto].
    - intros x Hx. rewrite Forall_forall in Hdone. specialize (Hdone x Hx).
      apply andb_false_iff. left. now apply Qle_bool_false.
  Qed.

  Lemma ff_loop_flow : forall fuel index pending done s acc,
    (len - 1 - index <= fuel)%nat -> (index < len)%nat ->
    sorted pending -> Forall (fun m => nth index times 0 <= m) pending ->
    epochs = done ++ pending -> Forall (fun m => m < nth index times 0) done ->
    let tr := ff_loop fuel add_step times sensors index pending in
    fold_left ev tr (s, acc) =
      (fst (grid (propagations tr) s), acc ++ snd (grid (propagations tr) s)) /\
    flat_map (row_epochs times epochs) (map fst (propagations tr)) = due pending.
  Proof.
    assert (Base : forall fuel index pending s acc, (index < len)%nat -> ~ (index + 1 < len)%nat ->
              Forall (fun m => nth index times 0 <= m) pending ->
              let tr := ff_loop fuel add_step times sensors index pending in
              fold_left ev tr (s, acc) =
                (fst (grid (propagations tr) s), acc ++ snd (grid (propagations tr) s)) /\
              flat_map (row_epochs times epochs) (map fst (propagations tr)) = due pending).
    { intros fuel index pending s acc Hidx Hdone Hlow.
      rewrite (ff_loop_done add_step times sensors fuel index pending Hdone).
      cbn. rewrite app_nil_r. split; [reflexivity|].
      assert (index = len - 1)%nat as -> by lia.
      symmetry. apply filter_all_false. intros x Hx. rewrite Forall_forall in Hlow.
      apply Qltb_false. auto. }
    induction fuel as [|fuel IH]; intros index pending done s acc Hfuel Hidx Hsp Hlow He Hdone.
    - apply Base; [assumption|lia|assumption].
    - destruct (Nat.lt_ge_cases (index + 1) len) as [Hlt|Hge];
        [|apply Base; [assumption|lia|assumption]].
      rewrite (ff_loop_step add_step times sensors fuel index pending Hlt).
      destruct (inner sensors (nth index times 0) (nth (index + 1) times 0) pending)
        as [evs p'] eqn:Einner.
      apply inner_spec in Einner as (pre & Hsplit & Hev & Hpre & Hhead).
      destruct (ff_step add_step times index p' Hlt Hhead) as (Hn' & Hhead' & Hbound).
      cbv zeta.
      set (nidx := Nat.max (searchsorted_right times
                      (min_inf (add_step (nth index times 0)) (head_inf p')) - 1)
                      (index + 1)) in *.
      rewrite (nth_error_nth' times 0 (n:=nidx)) by lia.
      assert (Hsp' : sorted p') by (subst pending; now apply sorted_app_r in Hsp).
      assert (Hlow' : Forall (fun m => nth nidx times 0 <= m) p').
      { destruct p' as [|m p]; [constructor|]. now apply sorted_head_le. }
      assert (Hp'b : Forall (fun m => nth (index + 1) times 0 <= m) p').
      { destruct p' as [|m p]; [constructor|]. now apply sorted_head_le. }
      assert (Hlowpre : Forall (fun m => nth index times 0 <= m) pre).
      { subst pending. now apply Forall_app in Hlow as [? _]. }
      assert (Hrow : row_epochs times epochs index = pre).
      { apply (row_epochs_prefix index done pre p' (nth (index + 1) times 0)); try assumption;
          try reflexivity. now rewrite He, Hsplit. }
      assert (Hle : nth (index + 1) times 0 <= nth nidx times 0).
      { apply (tt_le times Hsorted); lia. }
      assert (Hlt' : nth index times 0 < nth (index + 1) times 0).
      { apply (tt_lt times Hsorted); lia. }
      assert (Hdone' : Forall (fun m => m < nth nidx times 0) (done ++ pre)).
      { apply Forall_app. split.
        - rewrite Forall_forall in *. intros x Hx. specialize (Hdone x Hx). lra.
        - rewrite Forall_forall in *. intros x Hx. specialize (Hpre x Hx). lra. }
      assert (He' : epochs = (done ++ pre) ++ p') by (now rewrite <- app_assoc, He, Hsplit).
      pose proof (events_all_innov sensors (nth index times 0) pre) as Hall.
      rewrite <- Hev in Hall.
      set (tr' := ff_loop fuel add_step times sensors nidx p') in *.
      assert (Hprops : propagations (evs ++ Record (nth index times 0) :: Propagate index nidx :: tr')
                       = (index, nidx) :: propagations tr').
      { change (evs ++ Record (nth index times 0) :: Propagate index nidx :: tr')
          with (evs ++ [Record (nth index times 0); Propagate index nidx] ++ tr').
        rewrite !propagations_app, (all_innov_propagations evs Hall). reflexivity. }
      rewrite Hprops.
      split.
      + rewrite fold_left_app, Hev, flow_pre. cbn [fold_left ff_event fst snd].
        destruct (IH nidx p' (done ++ pre) (prop index nidx (fold_left (corr_epoch corr sensors (nth index times 0)) pre s))
                     (acc ++ [(nth index times 0, fold_left (corr_epoch corr sensors (nth index times 0)) pre s)])
                     ltac:(lia) ltac:(lia) Hsp' Hlow' He' Hdone') as [IH1 _].
        fold tr' in IH1. rewrite IH1.
        cbn [kalman_grid fst snd]. rewrite Hrow. rewrite <- app_assoc. reflexivity.
      + destruct (IH nidx p' (done ++ pre) s acc ltac:(lia) ltac:(lia) Hsp' Hlow' He' Hdone') as [_ IH2].
        fold tr' in IH2.
        cbn [map fst flat_map]. rewrite Hrow, IH2. subst pending.
        symmetry. apply (filter_lt_split pre p' (nth (index + 1) times 0)); [assumption|].
        apply (tt_le times Hsorted); lia.
  Qed.
End LoopFlow.

(* ---------- (a) ff_is_kalman_recursion ------------------------------------- *)

(* For every schedule (any strictly increasing time index with >= 2 rows, any
   stamps, any step function): the fold of the event trace of the loop equals the
   textbook recursion on the grid  0 = i_0 < i_1 < ... < i_N = len - 1  of the
   propagation steps: at every grid row i_r all epochs m with
   times[i_r] <= m < times[i_r + 1] are corrected (ascending, sensors in list
   order), the row (time, state) is recorded AFTER these corrections and BEFORE
   the propagation i_r -> i_{r+1}; every epoch in [start, end) belongs to exactly
   one grid row (none is lost, none lies in a skipped row). *)
Theorem ff_is_kalman_recursion_oracle :
  forall (state : Type) (corr : nat -> Q -> Q -> state -> state) (prop : nat -> nat -> state -> state)
         add_step times sensors fuel (s0 : state),
  sorted times -> (2 <= length times)%nat -> (length times - 1 <= fuel)%nat ->
  let tr := ff_run fuel add_step times sensors in
  let tstart := nth 0 times 0 in
  let tend := nth (length times - 1) times 0 in
  let epochs := clip tstart tend (merge_times sensors) in
  let steps := propagations tr in
  ff_flow corr prop tr s0 = kalman_grid corr prop times sensors epochs steps s0 /\
  chain 0 steps (length times - 1) /\
  (forall i j, In (i, j) steps -> (i < j)%nat /\ (j < length times)%nat) /\
  flat_map (row_epochs times epochs) (map fst steps) = filter (in_range tstart tend) (merge_times sensors) /\
  map fst (snd (ff_flow corr prop tr s0)) = record_times tr.
Proof.
  intros state corr prop add_step times sensors fuel s0 Hs Hlen Hfuel.
  assert (Hrun : ff_run fuel add_step times sensors =
                 ff_loop fuel add_step times sensors 0
                   (clip (nth 0 times 0) (nth (length times - 1) times 0) (merge_times sensors))).
  { unfold ff_run. destruct times as [|a l]; [cbn in Hlen; lia|].
    rewrite (last_nth_len (a :: l) a) by discriminate. reflexivity. }
  intros tr tstart tend epochs steps. fold tr in Hrun. fold tstart tend in Hrun. fold epochs in Hrun.
  assert (Hsp : sorted epochs) by apply clip_sorted, merge_times_sorted.
  assert (Hlow : Forall (fun m => nth 0 times 0 <= m) epochs).
  { apply Forall_forall. intros m Hm. apply clip_In in Hm. tauto. }
  destruct (ff_loop_flow state corr prop add_step times sensors epochs Hs fuel 0%nat epochs [] s0 []
              ltac:(lia) ltac:(lia) Hsp Hlow eq_refl ltac:(constructor)) as [H1 H2].
  rewrite <- Hrun in H1, H2. fold steps in H1, H2.
  destruct (ff_positive_propagate_oracle add_step times sensors fuel Hs Hlen Hfuel) as [Hp Hc].
  fold tr in Hp, Hc. fold steps in Hp, Hc.
  assert (Hflow : ff_flow corr prop tr s0 = kalman_grid corr prop times sensors epochs steps s0).
  { unfold ff_flow. rewrite H1. cbn [app]. now destruct (kalman_grid _ _ _ _ _ _ _). }
  split; [exact Hflow|]. split; [exact Hc|]. split.
  { intros i j Hin. destruct (Hp i j Hin) as (A & B & _). now split. }
  split.
  { rewrite H2. apply filter_lt_clip. }
  { rewrite Hflow.
    destruct (ff_records_oracle add_step times sensors fuel Hs Hlen Hfuel) as (_ & _ & _ & Hr).
    fold tr in Hr. fold steps in Hr. rewrite Hr.
    clear. generalize s0. induction steps as [|[i j] r IH]; intro s; [reflexivity|].
    cbn [kalman_grid snd map fst]. f_equal. apply IH. }
Qed.

Theorem ff_is_kalman_recursion :
  forall (state : Type) (corr : nat -> Q -> Q -> state -> state) (prop : nat -> nat -> state -> state)
         time_step times sensors fuel (s0 : state),
  sorted times -> (2 <= length times)%nat -> (length times - 1 <= fuel)%nat ->
  let tr := ff_run_exact fuel time_step times sensors in
  let tstart := nth 0 times 0 in
  let tend := nth (length times - 1) times 0 in
  let epochs := clip tstart tend (merge_times sensors) in
  let steps := propagations tr in
  ff_flow corr prop tr s0 = kalman_grid corr prop times sensors epochs steps s0 /\
  chain 0 steps (length times - 1) /\
  (forall i j, In (i, j) steps -> (i < j)%nat /\ (j < length times)%nat) /\
  flat_map (row_epochs times epochs) (map fst steps) = filter (in_range tstart tend) (merge_times sensors) /\
  map fst (snd (ff_flow corr prop tr s0)) = record_times tr.
Proof. intros. now apply ff_is_kalman_recursion_oracle. Qed.

(* non-vacuity / illustration: the schedule of Props/C10.v on the free algebra *)
Definition ex_times : list Q := [1; 11#10; 12#10; 13#10; 14#10; 15#10].
Definition ex_sensors : list (list Q) :=
  [ [99#100; 101#100; 12#10; 143#100; 15#10];
    [1; 102#100; 12#10; 147#100; 2];
    [103#100] ].

Lemma ex_flow_large_step :
  let tr := ff_run_exact 5 1 ex_times ex_sensors in
  propagations tr = [(0, 2); (2, 4); (4, 5)]%nat /\
  snd (t_flow tr) =
    [ (1, TCorr 2 (103#100) 1 (TCorr 1 (102#100) 1 (TCorr 0 (101#100) 1 (TCorr 1 1 1 TInit))));
      (12#10, TCorr 1 (12#10) (12#10) (TCorr 0 (12#10) (12#10)
                (TProp 0 2 (TCorr 2 (103#100) 1 (TCorr 1 (102#100) 1 (TCorr 0 (101#100) 1 (TCorr 1 1 1 TInit)))))));
      (14#10, TCorr 1 (147#100) (14#10) (TCorr 0 (143#100) (14#10)
                (TProp 2 4 (TCorr 1 (12#10) (12#10) (TCorr 0 (12#10) (12#10)
                (TProp 0 2 (TCorr 2 (103#100) 1 (TCorr 1 (102#100) 1 (TCorr 0 (101#100) 1 (TCorr 1 1 1 TInit)))))))))) ] /\
  t_flow tr = kalman_grid TCorr TProp ex_times ex_sensors
                (clip 1 (15#10) (merge_times ex_sensors)) (propagations tr) TInit.
Proof. vm_compute. repeat split. Qed.

(* ========================================================================= *)
(*  Part B : the operations (MathComp)                                        *)
(* ========================================================================= *)
From mathcomp Require Import all_ssreflect all_algebra.
From PV Require Import Spec.LibSpecsMx Spec.Gaussian Gen.Kalman Proofs.KalmanProofs.
Set Implicit Arguments.
Unset Strict Implicit.
Import Order.Theory GRing.Theory Num.Theory.
Local Open Scope ring_scope.

(* ---------- (b) H_full = [H | 0 | 0] --------------------------------------- *)
Section HFull.
Variable F : fieldType.
Variables ni ns m : nat.         (* ns = number of sensor-parameter states (gyro + accel) *)
Variables (H : 'M[F]_(m, ni)) (R : 'M[F]_m) (P : 'M[F]_(ni + ns)) (x : 'cV[F]_(ni + ns)).

(* the predicted measurement depends on the inertial block of the state only *)
Lemma h_full_state : row_mx H 0 *m x = H *m usubmx x.
Proof. by rewrite -{1}[x]vsubmxK mul_row_col mul0mx addr0. Qed.

(* ... the innovation covariance on the inertial block of P only *)
Lemma h_full_cov : row_mx H 0 *m P *m (row_mx H 0)^T = H *m ulsubmx P *m H^T.
Proof.
rewrite -{1}[P]submxK mul_row_block !mul0mx !addr0.
by rewrite tr_row_mx trmx0 mul_row_col mulmx0 addr0.
Qed.

(* ... and the sensor parameters are corrected only through their cross-covariance
   with the inertial states *)
Lemma h_full_cross :
  P *m (row_mx H 0)^T = col_mx (ulsubmx P *m H^T) (dlsubmx P *m H^T).
Proof.
rewrite -{1}[P]submxK tr_row_mx trmx0 mul_block_col !mulmx0 !addr0. by [].
Qed.

Lemma h_full_S : correct_S P (row_mx H 0) R = H *m ulsubmx P *m H^T + R.
Proof. by rewrite correct_S_eq /innov_cov h_full_cov. Qed.
End HFull.

(* ---------- every correction is the conditional-Gaussian update ------------ *)
Section FlowOps.
Variable F : realFieldType.
Variables ni ng na : nat.
Local Notation n := (ni + (ng + na))%N.
Variable mdim : nat -> nat.
Variable zf : forall k : nat, Q -> 'cV[F]_(mdim k).
Variable Hf : forall k : nat, Q -> 'M[F]_(mdim k, ni).
Variable Rf : forall k : nat, 'M[F]_(mdim k).
Variable chol : forall k : nat, 'M[F]_(mdim k) -> 'M[F]_(mdim k).
Variables Phi Qd : nat -> nat -> 'M[F]_n.

Hypothesis R_sym : forall k, (Rf k)^T = Rf k.
Hypothesis R_pd : forall k, pd (Rf k).
(* scipy.linalg.cholesky: a lower factor of every symmetric positive definite matrix *)
Hypothesis chol_ok : forall k (S : 'M[F]_(mdim k)), S^T = S -> pd S -> cholesky_factor (@chol k) S.
Hypothesis Qd_sym : forall i j, (Qd i j)^T = Qd i j.
Hypothesis Qd_psd : forall i j, psd (Qd i j).

Local Notation kc := (@k_corr F ni ng na mdim zf Hf Rf chol).
Local Notation kcs := (@k_corr_spec F ni ng na mdim zf Hf Rf).
Local Notation kp := (@k_prop F ni ng na Phi Qd).

Lemma correct_S_sym (m' : nat) (P : 'M[F]_n) (H : 'M[F]_(m', n)) (R : 'M[F]_m') :
  P^T = P -> R^T = R -> (correct_S P H R)^T = correct_S P H R.
Proof. by move=> sP sR; rewrite correct_S_eq; apply: innov_cov_sym. Qed.

Lemma k_corr_conditional k m t (s : kstate F ni ng na) :
  cov_ok s -> cov_ok (kc k m t s) /\ kcs k m t s = kc k m t s.
Proof.
case=> sP pP.
have cF : cholesky_factor (@chol k) (correct_S s.2 (@h_full F ni ng na mdim Hf k m) (Rf k)).
  apply: chol_ok; first exact: correct_S_sym.
  exact: correct_S_pd.
have [e0 e1 _ _] := correct_is_conditional s.1 (zf k m) sP pP (R_sym k) (@R_pd k) cF.
have [s1 p1 _] := correct_cov_properties sP pP (R_sym k) (@R_pd k) cF.
by split; [split | rewrite /k_corr /k_corr_spec e0 e1].
Qed.

Lemma k_prop_ok i j (s : kstate F ni ng na) : cov_ok s -> cov_ok (kp i j s) /\ kp i j s = kp i j s.
Proof.
case=> sP pP; split=> //; split.
- by rewrite /k_prop /= trmx_add !trmx_mul trmxK sP Qd_sym mulmxA.
- by apply: psd_add (@Qd_psd i j); apply: psd_conj.
Qed.

(* for EVERY event trace: the fold of the generated code's operations is the fold of the
   conditional-Gaussian updates of Spec/Gaussian.v, and every covariance that is recorded,
   passed to kalman.correct or returned at the end is symmetric positive semidefinite *)
Theorem kalman_flow_spec (tr : list event) (s0 : kstate F ni ng na) :
  cov_ok s0 ->
  [/\ cov_ok (ff_flow kc kp tr s0).1,
      List.Forall (fun r => cov_ok r.2) (ff_flow kc kp tr s0).2
    & ff_flow kcs kp tr s0 = ff_flow kc kp tr s0].
Proof.
move=> ok0.
have [h1 [h2 h3]] := @ff_flow_inv _ kc kp (@cov_ok F ni ng na) kcs kp k_corr_conditional k_prop_ok tr s0 ok0.
by split.
Qed.
End FlowOps.

(* ---------- block layout of the assembly functions -------------------------- *)
Section PsdBlocks.
Variable F : realFieldType.

Lemma psd_block_diag (m1 m2 : nat) (A : 'M[F]_m1) (B : 'M[F]_m2) :
  psd A -> psd B -> psd (block_mx A 0 0 B).
Proof.
move=> pA pB x; rewrite -[x]vsubmxK tr_col_mx mul_row_block !mulmx0 addr0 add0r mul_row_col mxE.
by rewrite addr_ge0 ?pA ?pB.
Qed.

Lemma sym_block_diag (m1 m2 : nat) (A : 'M[F]_m1) (B : 'M[F]_m2) :
  A^T = A -> B^T = B -> (block_mx A 0 0 B)^T = block_mx A 0 0 B.
Proof. by move=> sA sB; rewrite tr_block_mx !trmx0 sA sB. Qed.
End PsdBlocks.

Section AssemblyFacts.
Variable F : realFieldType.
Variables ni ng na vg va qg qa : nat.
Variables (T : 'M[F]_(ni, 9)) (Ppva : 'M[F]_9) (Pg : 'M[F]_ng) (Pa : 'M[F]_na).
Variables (Fii : 'M[F]_ni) (Fig Fia : 'M[F]_(ni, 3)).
Variables (Hg : 'M[F]_(3, ng)) (Ha : 'M[F]_(3, na)).
Variables (Fg : 'M[F]_ng) (Fa : 'M[F]_na).
Variables (Jg : 'M[F]_(3, vg)) (Ja : 'M[F]_(3, va)).
Variables (Gg : 'M[F]_(ng, qg)) (Ga : 'M[F]_(na, qa)).
Variables (v_g : 'cV[F]_vg) (v_a : 'cV[F]_va) (q_g : 'cV[F]_qg) (q_a : 'cV[F]_qa).

(* P0 = T P_pva T^T (+) P_gyro (+) P_accel : the four blocks, for every triple of sizes *)
Lemma init_cov_blocks :
  [/\ ulsubmx (init_cov T Ppva Pg Pa) = T *m Ppva *m T^T,
      ursubmx (init_cov T Ppva Pg Pa) = 0,
      dlsubmx (init_cov T Ppva Pg Pa) = 0
    & drsubmx (init_cov T Ppva Pg Pa) = block_mx Pg 0 0 Pa].
Proof. by rewrite /init_cov block_mxKul block_mxKur block_mxKdl block_mxKdr. Qed.

(* the initial state (0, P0) satisfies the covariance invariant *)
Lemma init_cov_ok :
  Ppva^T = Ppva -> psd Ppva -> Pg^T = Pg -> psd Pg -> Pa^T = Pa -> psd Pa ->
  (init_cov T Ppva Pg Pa)^T = init_cov T Ppva Pg Pa /\ psd (init_cov T Ppva Pg Pa).
Proof.
move=> sP pP sg pg sa pa; split.
- apply: sym_block_diag; last exact: sym_block_diag.
  by rewrite !trmx_mul trmxK sP mulmxA.
- by apply: psd_block_diag; [apply: psd_conj | apply: psd_block_diag].
Qed.

(* F: rows (ins | gyro | accel) x columns (ins | gyro | accel) *)
Lemma asm_F_blocks :
  [/\ ulsubmx (asm_F Fii Fig Fia Hg Ha Fg Fa) = Fii,
      ursubmx (asm_F Fii Fig Fia Hg Ha Fg Fa) = row_mx (Fig *m Hg) (Fia *m Ha),
      dlsubmx (asm_F Fii Fig Fia Hg Ha Fg Fa) = 0
    & drsubmx (asm_F Fii Fig Fia Hg Ha Fg Fa) = block_mx Fg 0 0 Fa].
Proof. by rewrite /asm_F block_mxKul block_mxKur block_mxKdl block_mxKdr. Qed.

(* the sensor parameters do not depend on the navigation errors and not on each other *)
Lemma asm_F_rows :
  dsubmx (asm_F Fii Fig Fia Hg Ha Fg Fa) = row_mx 0 (block_mx Fg 0 0 Fa).
Proof. by rewrite /asm_F /block_mx col_mxKd. Qed.

(* G: rows (ins | gyro | accel) x columns (gyro output noise | accel output noise | gyro noise | accel noise) *)
Lemma asm_G_rows :
  [/\ usubmx (asm_G Fig Fia Jg Ja Gg Ga) = row_mx (Fig *m Jg) (row_mx (Fia *m Ja) 0),
      usubmx (dsubmx (asm_G Fig Fia Jg Ja Gg Ga)) = row_mx 0 (row_mx 0 (row_mx Gg 0))
    & dsubmx (dsubmx (asm_G Fig Fia Jg Ja Gg Ga)) = row_mx 0 (row_mx 0 (row_mx 0 Ga))].
Proof. by rewrite /asm_G col_mxKu col_mxKd col_mxKu col_mxKd. Qed.

(* diag(q^2) of the stacked intensities is block diagonal *)
Lemma diag_sq_col (k1 k2 : nat) (a : 'cV[F]_k1) (b : 'cV[F]_k2) :
  diag_sq (col_mx a b) = block_mx (diag_sq a) 0 0 (diag_sq b).
Proof.
rewrite /diag_sq -diag_mx_row; congr diag_mx.
apply/rowP=> j; rewrite !mxE; case: (splitP j) => j' _; by rewrite !mxE.
Qed.

(* Q = G diag(q^2) G^T is symmetric positive semidefinite for every choice of the blocks *)
Lemma diag_sq_sym (k : nat) (u : 'cV[F]_k) : (diag_sq u)^T = diag_sq u.
Proof. by rewrite /diag_sq tr_diag_mx. Qed.

Lemma diag_sq_psd (k : nat) (u : 'cV[F]_k) : psd (diag_sq u).
Proof.
move=> x; rewrite /diag_sq mxE; apply: sumr_ge0 => j _.
rewrite mul_mx_diag !mxE mulrAC -expr2.
by apply: mulr_ge0; apply: sqr_ge0.
Qed.

Lemma asm_Q_ok :
  (asm_Q Fig Fia Jg Ja Gg Ga v_g v_a q_g q_a)^T = asm_Q Fig Fia Jg Ja Gg Ga v_g v_a q_g q_a /\
  psd (asm_Q Fig Fia Jg Ja Gg Ga v_g v_a q_g q_a).
Proof.
split; first by rewrite /asm_Q !trmx_mul trmxK diag_sq_sym mulmxA.
exact/psd_conj/diag_sq_psd.
Qed.
End AssemblyFacts.
