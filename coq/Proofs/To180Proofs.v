(** C18 (T part): [util.to_180_range] reduces every real angle to the congruent
    value in (-180, 180].  Proved against the GENERATED rendering in Gen/Util.v
    ([to_180_range_r]: scalar code path, [to_180_range_arr_r]: ndarray / pandas
    code path) where Python's float [%] is [pymod x m = x - m * IZR (Int_part (x/m))]. *)
From Coq Require Import Reals ZArith Lra Lia.
From PV Require Import Spec.LibSpecs Gen.Util.
Open Scope R_scope.

(** ** Python's [x % 360] over the reals *)

Lemma pymod360_frac : forall x, pymod x 360 = 360 * frac_part (x / 360).
Proof.
  intro x. unfold pymod, Rfloor, frac_part. field.
Qed.

Lemma pymod360_range : forall x, 0 <= pymod x 360 < 360.
Proof.
  intro x. rewrite pymod360_frac.
  destruct (base_fp (x / 360)) as [H0 H1]. lra.
Qed.

Lemma pymod360_congruent : forall x, x = pymod x 360 + 360 * IZR (Int_part (x / 360)).
Proof.
  intro x. unfold pymod, Rfloor. lra.
Qed.

(** ** Uniqueness of the representative in (-180, 180] *)

Lemma repr180_unique : forall r r' (k : Z),
  -180 < r <= 180 -> -180 < r' <= 180 -> r = r' + 360 * IZR k -> r = r'.
Proof.
  intros r r' k Hr Hr' E.
  assert (Hk : (k = 0)%Z).
  { assert (H1 : IZR k < 1) by lra.
    assert (H2 : -1 < IZR k) by lra.
    apply lt_IZR in H1. change (-1) with (IZR (-1)) in H2. apply lt_IZR in H2. lia. }
  subst k. simpl in E. lra.
Qed.

(** ** The scalar code path *)

Lemma to180_scalar_cases : forall x,
  (pymod x 360 <= 180 /\ to_180_range_r x = pymod x 360) \/
  (180 < pymod x 360 /\ to_180_range_r x = pymod x 360 - 360).
Proof.
  intro x. pose proof (pymod360_range x) as Hm.
  unfold to_180_range_r, to_180_range_r__p0, to_180_range_r__p1, to_180_range_r__p2,
    to_180_range__0.
  destruct (Rlt_dec (pymod x 360) (-180)) as [Hlt | Hlt]; [lra |].
  destruct (Rgt_dec (pymod x 360) 180) as [Hgt | Hgt].
  - right. split; [lra | reflexivity].
  - left. split; [lra | reflexivity].
Qed.

Lemma to180_array_cases : forall x,
  (pymod x 360 <= 180 /\ to_180_range_arr_r x = pymod x 360) \/
  (180 < pymod x 360 /\ to_180_range_arr_r x = pymod x 360 - 360).
Proof.
  intro x. pose proof (pymod360_range x) as Hm.
  unfold to_180_range_arr_r, to_180_range_arr_r__p0, to_180_range_arr_r__p1,
    to_180_range_arr_r__p2, to_180_range_arr_r__p3, to_180_range_arr__1, to_180_range_arr__0.
  destruct (Rlt_dec (pymod x 360) (-180)) as [Hlt | Hlt]; [lra |].
  destruct (Rgt_dec (pymod x 360) 180) as [Hgt | Hgt].
  - right. split; [lra | reflexivity].
  - left. split; [lra | reflexivity].
Qed.

Theorem to180_scalar_eq_array : forall x, to_180_range_r x = to_180_range_arr_r x.
Proof.
  intro x.
  destruct (to180_scalar_cases x) as [[H1 E1] | [H1 E1]];
    destruct (to180_array_cases x) as [[H2 E2] | [H2 E2]]; try lra.
Qed.

Theorem to180_range_congruent : forall x : R,
  -180 < to_180_range_r x <= 180 /\ exists k : Z, x = to_180_range_r x + 360 * IZR k.
Proof.
  intro x. pose proof (pymod360_range x) as Hm.
  pose proof (pymod360_congruent x) as Hc.
  destruct (to180_scalar_cases x) as [[H1 E1] | [H1 E1]]; rewrite E1.
  - split; [lra |]. exists (Int_part (x / 360)). exact Hc.
  - split; [lra |]. exists (Int_part (x / 360) + 1)%Z. rewrite plus_IZR. lra.
Qed.

Theorem to180_arr_range_congruent : forall x : R,
  -180 < to_180_range_arr_r x <= 180 /\ exists k : Z, x = to_180_range_arr_r x + 360 * IZR k.
Proof.
  intro x. rewrite <- to180_scalar_eq_array. apply to180_range_congruent.
Qed.

(** Characterisation: the result is THE representative of x in (-180, 180]. *)
Lemma to180_unique : forall x r (k : Z),
  -180 < r <= 180 -> x = r + 360 * IZR k -> to_180_range_r x = r.
Proof.
  intros x r k Hr E.
  destruct (to180_range_congruent x) as [Hrange [k' E']].
  apply (repr180_unique _ _ (k - k')%Z); try assumption.
  rewrite minus_IZR. lra.
Qed.

Theorem to180_of_in_range : forall x, -180 < x <= 180 -> to_180_range_r x = x.
Proof.
  intros x Hx. apply (to180_unique x x 0%Z); [assumption | simpl; lra].
Qed.

Theorem to180_idempotent : forall x, to_180_range_r (to_180_range_r x) = to_180_range_r x.
Proof.
  intro x. apply to180_of_in_range. apply to180_range_congruent.
Qed.

Theorem to180_congruent_eq : forall x y (k : Z),
  x = y + 360 * IZR k -> to_180_range_r x = to_180_range_r y.
Proof.
  intros x y k E.
  destruct (to180_range_congruent y) as [Hr [k' E']].
  apply (to180_unique x _ (k + k')%Z); [assumption |].
  rewrite plus_IZR. lra.
Qed.

(** Negation: antisymmetric except at the endpoint 180, which is its own image. *)
Theorem to180_neg : forall x,
  (to_180_range_r x <> 180 -> to_180_range_r (- x) = - to_180_range_r x) /\
  (to_180_range_r x = 180 -> to_180_range_r (- x) = 180).
Proof.
  intro x. destruct (to180_range_congruent x) as [Hr [k E]]. split.
  - intro Hne. apply (to180_unique (- x) _ (- k)%Z); [lra |].
    rewrite opp_IZR. lra.
  - intro H180. apply (to180_unique (- x) _ (- k - 1)%Z); [lra |].
    rewrite minus_IZR, opp_IZR. lra.
Qed.

(** Same statements for the array / pandas code path (the one
    [compute_state_difference] uses: it passes a DataFrame / Series). *)
Theorem to180_arr_of_in_range : forall x, -180 < x <= 180 -> to_180_range_arr_r x = x.
Proof. intros x Hx. rewrite <- to180_scalar_eq_array. now apply to180_of_in_range. Qed.

Theorem to180_arr_idempotent :
  forall x, to_180_range_arr_r (to_180_range_arr_r x) = to_180_range_arr_r x.
Proof. intro x. rewrite <- !to180_scalar_eq_array. apply to180_idempotent. Qed.

Theorem to180_arr_neg : forall x,
  (to_180_range_arr_r x <> 180 -> to_180_range_arr_r (- x) = - to_180_range_arr_r x) /\
  (to_180_range_arr_r x = 180 -> to_180_range_arr_r (- x) = 180).
Proof. intro x. rewrite <- !to180_scalar_eq_array. apply to180_neg. Qed.

(** Non-vacuity / sanity: concrete values, including both endpoints. *)
Example to180_at_180 : to_180_range_r 180 = 180.
Proof. apply to180_of_in_range. lra. Qed.

Example to180_at_m180 : to_180_range_r (-180) = 180.
Proof. apply (to180_unique _ _ (-1)%Z); simpl; lra. Qed.

Example to180_at_540 : to_180_range_r 540 = 180.
Proof. apply (to180_unique _ _ 1%Z); simpl; lra. Qed.

Example to180_at_190 : to_180_range_arr_r 190 = -170.
Proof. rewrite <- to180_scalar_eq_array. apply (to180_unique _ _ 1%Z); simpl; lra. Qed.

Example to180_neg_endpoint :
  to_180_range_r 180 = 180 /\ to_180_range_r (- 180) = 180.
Proof. split; [exact to180_at_180 | exact to180_at_m180]. Qed.
