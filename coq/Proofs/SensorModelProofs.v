(** Proofs about Model/SensorModel.v (property C14).  All statements are generic in the
    parameter values (and hence in the 2^18 enable masks): the constructor loops are
    characterised by induction on the loop counter, everything else follows from the
    characterisation. *)
From Coq Require Import List String Ascii Arith Bool ZArith QArith Qcanon Lia Sorted.
From PV Require Import Model.SensorModel.
Import ListNotations.
Open Scope Qc_scope.

(* ------------------------------------------------------------------ *)
(** * Comparisons *)

Lemma Qcpos_spec x : Qcpos x = true <-> 0 < x.
Proof.
  unfold Qcpos. rewrite Qclt_alt. destruct (0 ?= x); split; congruence.
Qed.

Lemma Qcnonpos_spec x : Qcnonpos x = true <-> x <= 0.
Proof.
  unfold Qcnonpos. rewrite Qcle_alt. destruct (x ?= 0); split; congruence.
Qed.

Lemma Qcnonpos_negb x : Qcnonpos x = negb (Qcpos x).
Proof.
  destruct (Qcpos x) eqn:Hp; cbn.
  - apply Qcpos_spec in Hp. destruct (Qcnonpos x) eqn:Hn; [|reflexivity].
    apply Qcnonpos_spec in Hn. exfalso. exact (Qclt_not_le _ _ Hp Hn).
  - destruct (Qcnonpos x) eqn:Hn; [reflexivity|]. exfalso.
    destruct (Qclt_le_dec 0 x) as [Hl|Hl].
    + apply Qcpos_spec in Hl. congruence.
    + apply Qcnonpos_spec in Hl. congruence.
Qed.

Lemma Qcneq_spec x y : Qcneq x y = false <-> x = y.
Proof. unfold Qcneq. destruct (Qc_eq_dec x y); split; congruence. Qed.

(* ------------------------------------------------------------------ *)
(** * Lists paired with consecutive indices *)

Lemma indexed_nil {A} s : @indexed A s [] = [].
Proof. reflexivity. Qed.

Lemma indexed_cons {A} s (x : A) l : indexed s (x :: l) = (x, s) :: indexed (S s) l.
Proof. reflexivity. Qed.

Lemma indexed_app {A} (l1 l2 : list A) s :
  indexed s (l1 ++ l2) = indexed s l1 ++ indexed (s + List.length l1) l2.
Proof.
  revert s. induction l1 as [|x l1 IH]; intro s; cbn [app List.length].
  - rewrite Nat.add_0_r. reflexivity.
  - rewrite !indexed_cons, IH. cbn [app]. do 3 f_equal. lia.
Qed.

Lemma indexed_length {A} (l : list A) s : List.length (indexed s l) = List.length l.
Proof. unfold indexed. rewrite combine_length, seq_length. lia. Qed.

Lemma indexed_map_fst {A} (l : list A) s : map fst (indexed s l) = l.
Proof.
  revert s. induction l as [|x l IH]; intro s; [reflexivity|].
  rewrite indexed_cons. cbn. now rewrite IH.
Qed.

Lemma In_indexed {A} (l : list A) s x j :
  In (x, j) (indexed s l) <-> (s <= j /\ nth_error l (j - s) = Some x)%nat.
Proof.
  revert s. induction l as [|y l IH]; intro s.
  - cbn. split; [tauto|]. intros [_ H]. destruct (j - s)%nat; discriminate.
  - rewrite indexed_cons. cbn [In]. rewrite IH. split.
    + intros [E|[Hle Hn]].
      * inversion E; subst. split; [lia|]. now rewrite Nat.sub_diag.
      * split; [lia|]. replace (j - s)%nat with (S (j - S s)) by lia. exact Hn.
    + intros [Hle Hn]. destruct (Nat.eq_dec j s) as [->|Hne].
      * rewrite Nat.sub_diag in Hn. cbn in Hn. left. congruence.
      * right. split; [lia|]. replace (j - s)%nat with (S (j - S s)) in Hn by lia. exact Hn.
Qed.

(** looking an index up in an indexed list *)
Lemma find_indexed_out {A} (l : list A) s j (f : A * nat -> bool) :
  (forall e, f e = true -> snd e = j) ->
  (j < s \/ s + List.length l <= j)%nat ->
  find f (indexed s l) = None.
Proof.
  intros Hf. revert s. induction l as [|x l IH]; intros s Hj; [reflexivity|].
  rewrite indexed_cons. cbn [find]. destruct (f (x, s)) eqn:E.
  - apply Hf in E. cbn in E, Hj. lia.
  - apply IH. cbn in Hj. lia.
Qed.

Lemma find_indexed_in {A} (l : list A) s k d (f : A * nat -> bool) (p : A -> bool) :
  (forall e, f e = p (fst e) && Nat.eqb (snd e) (s + k)) ->
  (k < List.length l)%nat ->
  find f (indexed s l) = if p (nth k l d) then Some (nth k l d, (s + k)%nat) else None.
Proof.
  revert s k. induction l as [|x l IH]; intros s k Hf Hk; [cbn in Hk; lia|].
  rewrite indexed_cons. cbn [find]. rewrite Hf. cbn [fst snd].
  destruct k as [|k].
  - rewrite Nat.add_0_r, Nat.eqb_refl, andb_true_r. cbn [nth].
    destruct (p x); [reflexivity|].
    apply find_indexed_out with (j := s).
    + intros e He. rewrite Hf, Nat.add_0_r in He. apply andb_prop in He.
      now apply Nat.eqb_eq.
    + lia.
  - replace (Nat.eqb s (s + S k)) with false by (symmetry; apply Nat.eqb_neq; lia).
    rewrite andb_false_r. cbn [nth].
    replace (s + S k)%nat with (S s + k)%nat by lia.
    apply IH; [|cbn in Hk; lia].
    intro e. rewrite Hf. do 2 f_equal. lia.
Qed.

Lemma existsb_find {A} (f : A -> bool) l :
  existsb f l = match find f l with Some _ => true | None => false end.
Proof. induction l as [|x l IH]; [reflexivity|]. cbn. destruct (f x); [reflexivity|exact IH]. Qed.

(* ------------------------------------------------------------------ *)
(** * Generic facts about [filter] over [seq] *)

Lemma filter_seq_S (p : nat -> bool) n :
  filter p (seq 0 (S n)) = filter p (seq 0 n) ++ (if p n then [n] else []).
Proof. rewrite seq_S, filter_app. cbn. destruct (p n); reflexivity. Qed.

Lemma list_prod_app_l {A B} (l1 l2 : list A) (l' : list B) :
  list_prod (l1 ++ l2) l' = list_prod l1 l' ++ list_prod l2 l'.
Proof. induction l1 as [|x l1 IH]; [reflexivity|]. cbn. now rewrite IH, app_assoc. Qed.

(* ------------------------------------------------------------------ *)
(** * The constructor loops *)

Section Loops.
Variables (bias_sd noise bias_walk : V3 Qc) (sm_sd : M3).

Let ben (a : nat) := Qcpos (get3 a bias_sd).
Let wen (a : nat) := Qcpos (get3 a bias_walk).
Let enb_n (n : nat) := filter ben (seq 0 n).
Let enw_n (n : nat) := filter wen (enb_n n).
Let rank (a : nat) := List.length (enb_n a).

Lemma bias_loop_spec n :
  let a := bias_loop bias_sd bias_walk n in
  a_ns a = List.length (enb_n n) /\
  a_nn a = List.length (enw_n n) /\
  a_states a = map bias_name (enb_n n) /\
  a_P a = map (fun a => sq (get3 a bias_sd)) (enb_n n) /\
  a_G a = indexed 0 (map rank (enw_n n)) /\
  a_H a = indexed 0 (enb_n n) /\
  a_q a = map (fun a => get3 a bias_walk) (enw_n n).
Proof.
  induction n as [|n IH]; [cbn; repeat split; reflexivity|].
  cbn zeta in *. unfold bias_loop in *. cbn [for_range].
  set (a := for_range n (bias_step bias_sd bias_walk) _) in *.
  destruct IH as (Hns & Hnn & Hst & HP & HG & HH & Hq).
  unfold enw_n, enb_n in *. rewrite filter_seq_S, filter_app.
  unfold bias_step. fold (ben n). destruct (ben n) eqn:Eb.
  - cbn [filter]. fold (wen n). destruct (wen n) eqn:Ew; cbn [a_ns a_nn a_states a_P a_G a_H a_q].
    + rewrite !map_app, !app_length, !indexed_app, !map_length. cbn [map List.length].
      rewrite Hns, Hnn, Hst, HP, HG, HH, Hq. unfold indexed at 3 6. cbn.
      unfold rank, enb_n. repeat split; try reflexivity; lia.
    + rewrite !map_app, !app_length, !indexed_app, !app_nil_r. cbn [map List.length].
      rewrite Hns, Hnn, Hst, HP, HG, HH, Hq. unfold indexed at 3. cbn.
      repeat split; try reflexivity; lia.
  - cbn [filter]. rewrite !app_nil_r. repeat split; assumption.
Qed.

Let sen (oi : nat * nat) := Qcpos (get33 (fst oi) (snd oi) sm_sd).

Lemma sm_inner_spec o n b :
  let L := filter sen (map (fun y : nat => (o, y)) (seq 0 n)) in
  let b' := sm_inner sm_sd o n b in
  b_ns b' = (b_ns b + List.length L)%nat /\
  b_states b' = b_states b ++ map (fun oi => sm_name (fst oi) (snd oi)) L /\
  b_P b' = b_P b ++ map (fun oi => sq (get33 (fst oi) (snd oi) sm_sd)) L /\
  b_sm b' = b_sm b ++ indexed (b_ns b) L.
Proof.
  induction n as [|n IH].
  - cbn. rewrite Nat.add_0_r, !app_nil_r. repeat split; reflexivity.
  - cbn zeta in *. unfold sm_inner in *. cbn [for_range].
    set (b1 := for_range n (sm_step sm_sd o) b) in *.
    destruct IH as (Hns & Hst & HP & Hsm).
    rewrite seq_S, map_app, filter_app. cbn [map filter plus].
    unfold sm_step. change (Qcpos (get33 o n sm_sd)) with (sen (o, n)).
    destruct (sen (o, n)) eqn:Es.
    + cbn [b_ns b_states b_P b_sm].
      rewrite !map_app, !app_length, !indexed_app, Hns, Hst, HP, Hsm, !app_assoc.
      cbn. repeat split; try reflexivity; lia.
    + rewrite !app_nil_r. repeat split; assumption.
Qed.

Lemma sm_loop_spec n b :
  let L := filter sen (list_prod (seq 0 n) (seq 0 3)) in
  let b' := sm_loop sm_sd n b in
  b_ns b' = (b_ns b + List.length L)%nat /\
  b_states b' = b_states b ++ map (fun oi => sm_name (fst oi) (snd oi)) L /\
  b_P b' = b_P b ++ map (fun oi => sq (get33 (fst oi) (snd oi) sm_sd)) L /\
  b_sm b' = b_sm b ++ indexed (b_ns b) L.
Proof.
  induction n as [|n IH].
  - cbn. rewrite Nat.add_0_r, !app_nil_r. repeat split; reflexivity.
  - cbn zeta in *. unfold sm_loop in *. cbn [for_range].
    set (b1 := for_range n _ b) in *.
    destruct IH as (Hns & Hst & HP & Hsm).
    destruct (sm_inner_spec n 3 b1) as (Hns' & Hst' & HP' & Hsm').
    rewrite seq_S, list_prod_app_l, filter_app. cbn [plus list_prod]. rewrite app_nil_r.
    rewrite Hns', Hst', HP', Hsm', Hns, Hst, HP, Hsm.
    rewrite !map_app, !app_length, !indexed_app, !app_assoc.
    repeat split; try reflexivity; lia.
Qed.

Let nen (a : nat) := Qcpos (get3 a noise).

Lemma noise_loop_spec n :
  let c := noise_loop noise n in
  let L := filter nen (seq 0 n) in
  c_n c = List.length L /\ c_J c = indexed 0 L /\ c_v c = map (fun a => get3 a noise) L.
Proof.
  induction n as [|n IH]; [cbn; repeat split; reflexivity|].
  cbn zeta in *. unfold noise_loop in *. cbn [for_range].
  set (c := for_range n (noise_step noise) _) in *.
  destruct IH as (Hn & HJ & Hv).
  rewrite filter_seq_S. unfold noise_step. fold (nen n). destruct (nen n) eqn:En.
  - cbn [c_n c_J c_v]. rewrite !map_app, !app_length, !indexed_app, Hn, HJ, Hv.
    cbn. repeat split; try reflexivity; lia.
  - rewrite !app_nil_r. repeat split; assumption.
Qed.

End Loops.

(* ------------------------------------------------------------------ *)
(** * Characterisation of the constructor *)

Definition sd_sq (bias_sd : V3 Qc) (sm_sd : M3) (t : target) : Qc :=
  match t with TBias a => sq (get3 a bias_sd) | TSm o i => sq (get33 o i sm_sd) end.

Lemma build_spec bias_sd noise bias_walk sm_sd m :
  build bias_sd noise bias_walk sm_sd = Some m ->
  states m = map bias_name (enb bias_sd)
             ++ map (fun oi => sm_name (fst oi) (snd oi)) (ensm sm_sd) /\
  n_states m = (List.length (enb bias_sd) + List.length (ensm sm_sd))%nat /\
  n_noises m = List.length (enw bias_sd bias_walk) /\
  n_output_noises m = List.length (enn noise) /\
  P m = map (fun a => sq (get3 a bias_sd)) (enb bias_sd)
        ++ map (fun oi => sq (get33 (fst oi) (snd oi) sm_sd)) (ensm sm_sd) /\
  q m = map (fun a => get3 a bias_walk) (enw bias_sd bias_walk) /\
  v m = map (fun a => get3 a noise) (enn noise) /\
  G m = indexed 0 (map (bias_rank bias_sd) (enw bias_sd bias_walk)) /\
  H m = indexed 0 (enb bias_sd) /\
  J m = indexed 0 (enn noise) /\
  scale_misal_data m = indexed (List.length (enb bias_sd)) (ensm sm_sd).
Proof.
  unfold build. destruct (walk_without_bias bias_sd bias_walk); [discriminate|].
  intro E. injection E as <-. cbn [states n_states n_noises n_output_noises P q v G H J scale_misal_data].
  destruct (bias_loop_spec bias_sd bias_walk 3) as (Hns & Hnn & Hst & HP & HG & HH & Hq).
  destruct (noise_loop_spec noise 3) as (Hn & HJ & Hv).
  destruct (sm_loop_spec sm_sd 3
             (mk_acc2 (a_ns (bias_loop bias_sd bias_walk 3)) (a_states (bias_loop bias_sd bias_walk 3))
                      (a_P (bias_loop bias_sd bias_walk 3)) [])) as (Hns' & Hst' & HP' & Hsm').
  cbn [b_ns b_states b_P b_sm] in *.
  rewrite Hns', Hst', HP', Hsm', Hns, Hnn, Hst, HP, HG, HH, Hq, Hn, HJ, Hv.
  repeat split; reflexivity.
Qed.

(** [walk_requires_bias]: the constructor raises exactly in the documented case. *)
Lemma walk_requires_bias bias_sd noise bias_walk sm_sd :
  build bias_sd noise bias_walk sm_sd = None <->
  exists a, (a < 3)%nat /\ 0 < get3 a bias_walk /\ get3 a bias_sd <= 0.
Proof.
  unfold build. destruct (walk_without_bias bias_sd bias_walk) eqn:E.
  - split; [intros _|reflexivity].
    unfold walk_without_bias in E. apply existsb_exists in E. destruct E as (a & Hin & Ha).
    apply in_seq in Hin. apply andb_prop in Ha. destruct Ha as [H1 H2].
    exists a. split; [lia|]. split; [now apply Qcpos_spec|now apply Qcnonpos_spec].
  - split; [discriminate|]. intros (a & Ha & Hw & Hb). exfalso.
    assert (X : walk_without_bias bias_sd bias_walk = true); [|congruence].
    apply existsb_exists. exists a. split; [apply in_seq; lia|].
    apply andb_true_intro. split; [now apply Qcnonpos_spec|now apply Qcpos_spec].
Qed.

(* ------------------------------------------------------------------ *)
(** * Names: decoding inverts construction *)

Lemma decode_name_of t : valid_target t -> decode (name_of t) = DTarget t.
Proof.
  destruct t as [a|o i]; cbn [valid_target name_of].
  - intro Ha. destruct a as [|[|[|a]]]; try lia; reflexivity.
  - intros [Ho Hi]. destruct o as [|[|[|o]]]; try lia; destruct i as [|[|[|i]]]; try lia; reflexivity.
Qed.

Lemma decode_bias_name a : decode (bias_name a) = if (a <? 3)%nat then DTarget (TBias a) else DError.
Proof. destruct a as [|[|[|a]]]; reflexivity. Qed.

Lemma decode_sm_name o i :
  decode (sm_name o i) = if ((o <? 3) && (i <? 3))%nat then DTarget (TSm o i) else DError.
Proof. destruct o as [|[|[|o]]]; destruct i as [|[|[|i]]]; reflexivity. Qed.

Lemma decode_range name t : decode name = DTarget t -> valid_target t.
Proof.
  unfold decode. destruct (split_us name) as [|k rest]; [discriminate|].
  destruct (String.eqb k "bias").
  - destruct rest as [|it rest]; [discriminate|].
    unfold xyz_to_index.
    destruct (String.eqb it "x"); [intro E; injection E as <-; cbn; lia|].
    destruct (String.eqb it "y"); [intro E; injection E as <-; cbn; lia|].
    destruct (String.eqb it "z"); [intro E; injection E as <-; cbn; lia|discriminate].
  - destruct (String.eqb k "sm"); [|discriminate].
    destruct rest as [|[|a [|b r]] rest]; try discriminate.
    unfold xyz_to_index.
    destruct (String.eqb (String a "") "x"), (String.eqb (String a "") "y"),
      (String.eqb (String a "") "z"), (String.eqb (String b "") "x"),
      (String.eqb (String b "") "y"), (String.eqb (String b "") "z");
      try discriminate; intro E; injection E as <-; cbn; lia.
Qed.

Lemma enb_range bias_sd a : In a (enb bias_sd) -> (a < 3)%nat /\ 0 < get3 a bias_sd.
Proof.
  unfold enb. rewrite filter_In, in_seq. intros [H1 H2]. split; [lia|now apply Qcpos_spec].
Qed.

Lemma in_pairs9 o i : In (o, i) pairs9 <-> (o < 3 /\ i < 3)%nat.
Proof. unfold pairs9. rewrite in_prod_iff, !in_seq. lia. Qed.

Lemma ensm_range sm_sd o i :
  In (o, i) (ensm sm_sd) -> (o < 3 /\ i < 3)%nat /\ 0 < get33 o i sm_sd.
Proof.
  unfold ensm. rewrite filter_In, in_pairs9. cbn [fst snd]. intros [H1 H2].
  split; [lia|now apply Qcpos_spec].
Qed.

Lemma targets_valid bias_sd sm_sd : Forall valid_target (targets bias_sd sm_sd).
Proof.
  unfold targets. apply Forall_app. split; apply Forall_forall; intros t Ht;
    apply in_map_iff in Ht; destruct Ht as (x & <- & Hx).
  - apply enb_range in Hx. cbn. tauto.
  - destruct x as [o i]. apply ensm_range in Hx. cbn. tauto.
Qed.

Lemma states_targets bias_sd noise bias_walk sm_sd m :
  build bias_sd noise bias_walk sm_sd = Some m ->
  states m = map name_of (targets bias_sd sm_sd).
Proof.
  intro Hb. apply build_spec in Hb. destruct Hb as (Hst & _).
  rewrite Hst. unfold targets. rewrite map_app, !map_map. reflexivity.
Qed.

Lemma map_decode_targets ts :
  Forall valid_target ts -> map decode (map name_of ts) = map DTarget ts.
Proof.
  intro Hv. rewrite map_map. apply map_ext_in. intros t Ht.
  apply decode_name_of. rewrite Forall_forall in Hv. now apply Hv.
Qed.

(* ------------------------------------------------------------------ *)
(** * Order and distinctness of the states *)

Definition all_targets : list target :=
  map TBias (seq 0 3) ++ map (fun oi => TSm (fst oi) (snd oi)) pairs9.
Definition target_en (bias_sd : V3 Qc) (sm_sd : M3) (t : target) : bool :=
  match t with TBias a => Qcpos (get3 a bias_sd) | TSm o i => Qcpos (get33 o i sm_sd) end.

Lemma filter_map_comm {A B} (f : A -> B) (p : B -> bool) l :
  filter p (map f l) = map f (filter (fun x => p (f x)) l).
Proof. induction l as [|x l IH]; [reflexivity|]. cbn. destruct (p (f x)); cbn; now rewrite IH. Qed.

Lemma targets_filter bias_sd sm_sd :
  targets bias_sd sm_sd = filter (target_en bias_sd sm_sd) all_targets.
Proof.
  unfold targets, all_targets. rewrite filter_app, !filter_map_comm. reflexivity.
Qed.

Lemma sorted_map_filter {A} (f : A -> nat) (p : A -> bool) l :
  StronglySorted lt (map f l) -> StronglySorted lt (map f (filter p l)).
Proof.
  induction l as [|x l IH]; cbn; intro Hs; [constructor|].
  inversion Hs as [|? ? Hs' Hall]; subst. destruct (p x); cbn; [|now apply IH].
  constructor; [now apply IH|].
  rewrite Forall_forall in *. intros y Hy. apply Hall.
  apply in_map_iff in Hy. destruct Hy as (z & <- & Hz). apply filter_In in Hz.
  apply in_map. tauto.
Qed.

Lemma all_targets_sorted : StronglySorted lt (map key all_targets).
Proof. vm_compute. repeat (constructor; [|repeat constructor]). constructor. Qed.

Lemma targets_sorted bias_sd sm_sd : StronglySorted lt (map key (targets bias_sd sm_sd)).
Proof. rewrite targets_filter. apply sorted_map_filter, all_targets_sorted. Qed.

Lemma sorted_lt_NoDup l : StronglySorted lt l -> NoDup l.
Proof.
  induction 1 as [|x l Hs IH Hall]; constructor; [|exact IH].
  intro Hin. rewrite Forall_forall in Hall. specialize (Hall _ Hin). lia.
Qed.

Lemma targets_NoDup bias_sd sm_sd : NoDup (targets bias_sd sm_sd).
Proof. eapply NoDup_map_inv, sorted_lt_NoDup, targets_sorted. Qed.

Lemma NoDup_map_inj {A B} (f : A -> B) l :
  (forall x y, f x = f y -> x = y) -> NoDup l -> NoDup (map f l).
Proof.
  intros Hinj. induction 1 as [|x l Hx Hnd IH]; cbn; constructor; [|exact IH].
  intro Hin. apply in_map_iff in Hin. destruct Hin as (y & E & Hy). apply Hinj in E. congruence.
Qed.

Lemma states_NoDup bias_sd noise bias_walk sm_sd m :
  build bias_sd noise bias_walk sm_sd = Some m -> NoDup (states m).
Proof.
  intro Hb. rewrite (states_targets _ _ _ _ _ Hb).
  apply NoDup_map_inv with (f := decode).
  rewrite map_decode_targets by apply targets_valid.
  apply NoDup_map_inj; [intros x y E; congruence|apply targets_NoDup].
Qed.

(* ------------------------------------------------------------------ *)
(** * Positions: names, H and _scale_misal_data agree about every state *)

Lemma name_of_bias t a : valid_target t -> name_of t = bias_name a -> t = TBias a.
Proof.
  intros Hv E. apply decode_name_of in Hv. rewrite E, decode_bias_name in Hv.
  destruct (a <? 3)%nat; congruence.
Qed.

Lemma name_of_sm t o i : valid_target t -> name_of t = sm_name o i -> t = TSm o i.
Proof.
  intros Hv E. apply decode_name_of in Hv. rewrite E, decode_sm_name in Hv.
  destruct ((o <? 3) && (i <? 3))%nat; congruence.
Qed.

Lemma nth_error_targets bias_sd sm_sd k :
  nth_error (targets bias_sd sm_sd) k =
  if (k <? List.length (enb bias_sd))%nat then option_map TBias (nth_error (enb bias_sd) k)
  else option_map (fun oi => TSm (fst oi) (snd oi))
                  (nth_error (ensm sm_sd) (k - List.length (enb bias_sd))).
Proof.
  unfold targets. destruct (k <? List.length (enb bias_sd))%nat eqn:E.
  - apply Nat.ltb_lt in E. rewrite nth_error_app1 by (now rewrite map_length).
    apply nth_error_map.
  - apply Nat.ltb_ge in E. rewrite nth_error_app2 by (now rewrite map_length).
    rewrite map_length. apply nth_error_map.
Qed.

Lemma nth_error_states bias_sd noise bias_walk sm_sd m k :
  build bias_sd noise bias_walk sm_sd = Some m ->
  nth_error (states m) k = option_map name_of (nth_error (targets bias_sd sm_sd) k).
Proof. intro Hb. rewrite (states_targets _ _ _ _ _ Hb). apply nth_error_map. Qed.

Lemma nth_error_valid bias_sd sm_sd k t :
  nth_error (targets bias_sd sm_sd) k = Some t -> valid_target t.
Proof.
  intro H. apply nth_error_In in H. pose proof (targets_valid bias_sd sm_sd) as Hv.
  rewrite Forall_forall in Hv. now apply Hv.
Qed.

Lemma H_positions bias_sd noise bias_walk sm_sd m a s :
  build bias_sd noise bias_walk sm_sd = Some m ->
  In (a, s) (H m) <-> nth_error (states m) s = Some (bias_name a).
Proof.
  intro Hb. rewrite (nth_error_states _ _ _ _ _ s Hb).
  destruct (build_spec _ _ _ _ _ Hb) as (_ & _ & _ & _ & _ & _ & _ & _ & HH & _).
  rewrite HH, In_indexed, Nat.sub_0_r, nth_error_targets. split.
  - intros [_ Hn]. assert (Hlt : (s < List.length (enb bias_sd))%nat)
      by (apply nth_error_Some; congruence).
    apply Nat.ltb_lt in Hlt. rewrite Hlt, Hn. reflexivity.
  - intro Hn. split; [lia|].
    destruct (nth_error (targets bias_sd sm_sd) s) as [t|] eqn:Et.
    + pose proof (nth_error_valid _ _ _ _ Et) as Hv. rewrite nth_error_targets in Et.
      rewrite Et in Hn. cbn in Hn. injection Hn as Hn. apply (name_of_bias _ _ Hv) in Hn. subst t.
      destruct (s <? List.length (enb bias_sd))%nat.
      * destruct (nth_error (enb bias_sd) s); cbn in Et; congruence.
      * destruct (nth_error (ensm sm_sd) _); cbn in Et; congruence.
    + rewrite nth_error_targets in Et. rewrite Et in Hn. discriminate.
Qed.

Lemma sm_positions bias_sd noise bias_walk sm_sd m o i s :
  build bias_sd noise bias_walk sm_sd = Some m ->
  In (o, i, s) (scale_misal_data m) <-> nth_error (states m) s = Some (sm_name o i).
Proof.
  intro Hb. rewrite (nth_error_states _ _ _ _ _ s Hb).
  destruct (build_spec _ _ _ _ _ Hb) as (_ & _ & _ & _ & _ & _ & _ & _ & _ & _ & Hsm).
  rewrite Hsm, In_indexed, nth_error_targets. split.
  - intros [Hle Hn]. apply Nat.ltb_ge in Hle. rewrite Hle, Hn. reflexivity.
  - intro Hn.
    destruct (nth_error (targets bias_sd sm_sd) s) as [t|] eqn:Et.
    + pose proof (nth_error_valid _ _ _ _ Et) as Hv. rewrite nth_error_targets in Et.
      rewrite Et in Hn. cbn in Hn. injection Hn as Hn. apply (name_of_sm _ _ _ Hv) in Hn. subst t.
      destruct (s <? List.length (enb bias_sd))%nat eqn:El.
      * destruct (nth_error (enb bias_sd) s); cbn in Et; congruence.
      * apply Nat.ltb_ge in El. split; [exact El|].
        destruct (nth_error (ensm sm_sd) _) as [[o' i']|]; cbn in Et; congruence.
    + rewrite nth_error_targets in Et. rewrite Et in Hn. discriminate.
Qed.

Lemma created_for_spec bias_sd noise bias_walk sm_sd m k :
  build bias_sd noise bias_walk sm_sd = Some m ->
  created_for m k = nth_error (targets bias_sd sm_sd) k.
Proof.
  intro Hb.
  destruct (build_spec _ _ _ _ _ Hb) as (_ & _ & _ & _ & _ & _ & _ & _ & HH & _ & Hsm).
  unfold created_for. rewrite HH, Hsm, nth_error_targets.
  destruct (k <? List.length (enb bias_sd))%nat eqn:El.
  - apply Nat.ltb_lt in El.
    rewrite (find_indexed_in (enb bias_sd) 0 k 0%nat _ (fun _ => true)); [|reflexivity|exact El].
    rewrite (nth_error_nth' _ 0%nat El). reflexivity.
  - apply Nat.ltb_ge in El.
    rewrite (find_indexed_out (enb bias_sd) 0 k);
      [|intros e He; now apply Nat.eqb_eq in He|right; lia].
    destruct (Nat.lt_ge_cases (k - List.length (enb bias_sd)) (List.length (ensm sm_sd))) as [Hl|Hl].
    + rewrite (find_indexed_in (ensm sm_sd) _ (k - List.length (enb bias_sd)) (0%nat, 0%nat) _ (fun _ => true));
        [|intro e; cbn beta; rewrite andb_true_l; f_equal; lia|exact Hl].
      rewrite (nth_error_nth' _ (0%nat, 0%nat) Hl). reflexivity.
    + rewrite (find_indexed_out (ensm sm_sd) _ k);
        [|intros e He; now apply Nat.eqb_eq in He|right; lia].
      apply nth_error_None in Hl. rewrite Hl. reflexivity.
Qed.

(** [update_decodes_layout]: for every state index, decoding the state's NAME yields exactly
    the bias axis / matrix entry which the constructor's matrices ([H], [_scale_misal_data])
    attach to that index; and every index below [n_states] has such a meaning. *)
Lemma update_decodes_layout bias_sd noise bias_walk sm_sd m :
  build bias_sd noise bias_walk sm_sd = Some m ->
  forall k, (k < n_states m)%nat ->
  exists t name, created_for m k = Some t /\ valid_target t /\
                 nth_error (states m) k = Some name /\ decode name = DTarget t.
Proof.
  intros Hb k Hk. rewrite (created_for_spec _ _ _ _ _ k Hb).
  destruct (build_spec _ _ _ _ _ Hb) as (_ & Hns & _).
  assert (Hlen : List.length (targets bias_sd sm_sd) = n_states m).
  { unfold targets. rewrite app_length, !map_length. lia. }
  destruct (nth_error (targets bias_sd sm_sd) k) as [t|] eqn:Et.
  - exists t, (name_of t). pose proof (nth_error_valid _ _ _ _ Et) as Hv.
    repeat split; [exact Hv| |now apply decode_name_of].
    rewrite (nth_error_states _ _ _ _ _ k Hb), Et. reflexivity.
  - apply nth_error_None in Et. lia.
Qed.

Lemma update_loop_targets ts x st :
  Forall valid_target ts -> update_loop (map name_of ts) x st = Some (add_all ts x st).
Proof.
  intro Hv. revert x st. induction Hv as [|t ts Ht Hv IH]; intros x st; [reflexivity|].
  destruct x as [|xi xs]; [reflexivity|]. cbn [map update_loop].
  rewrite (decode_name_of _ Ht). unfold add_all. cbn [combine fold_left fst snd]. apply IH.
Qed.

Lemma get_loop_targets ts st :
  Forall valid_target ts ->
  get_loop (map name_of ts) st = Some (map (fun t => read_target t st) ts).
Proof.
  induction 1 as [|t ts Ht Hv IH]; [reflexivity|]. cbn [map get_loop].
  rewrite (decode_name_of _ Ht), IH. reflexivity.
Qed.

Lemma targets_length bias_sd noise bias_walk sm_sd m :
  build bias_sd noise bias_walk sm_sd = Some m ->
  List.length (targets bias_sd sm_sd) = n_states m /\ List.length (states m) = n_states m.
Proof.
  intro Hb. destruct (build_spec _ _ _ _ _ Hb) as (Hst & Hns & _).
  rewrite Hst. unfold targets. rewrite !app_length, !map_length. lia.
Qed.

(** [update] adds [x[k]] to the target state [k] was created for, for every state, and fails
    exactly on a length mismatch. *)
Lemma update_spec bias_sd noise bias_walk sm_sd m x st :
  build bias_sd noise bias_walk sm_sd = Some m ->
  update m x st = if Nat.eqb (List.length x) (n_states m)
                  then Some (add_all (targets bias_sd sm_sd) x st) else None.
Proof.
  intro Hb. unfold update. destruct (targets_length _ _ _ _ _ Hb) as [_ Hl]. rewrite Hl.
  destruct (Nat.eqb (List.length x) (n_states m)); [|reflexivity].
  rewrite (states_targets _ _ _ _ _ Hb). apply update_loop_targets, targets_valid.
Qed.

Lemma get_estimates_spec bias_sd noise bias_walk sm_sd m st :
  build bias_sd noise bias_walk sm_sd = Some m ->
  get_estimates m st = Some (map (fun t => read_target t st) (targets bias_sd sm_sd)).
Proof.
  intro Hb. unfold get_estimates. rewrite (states_targets _ _ _ _ _ Hb).
  apply get_loop_targets, targets_valid.
Qed.

(* ------------------------------------------------------------------ *)
(** * Algebra of the estimate state machine *)

Lemma get3_upd3_same {A} i (f : A -> A) v : get3 i (upd3 i f v) = f (get3 i v).
Proof. destruct i as [|[|i]]; reflexivity. Qed.

Lemma get3_upd3_other {A} i j (f : A -> A) v :
  (i < 3)%nat -> (j < 3)%nat -> i <> j -> get3 i (upd3 j f v) = get3 i v.
Proof. intros Hi Hj Hne. destruct i as [|[|[|i]]], j as [|[|[|j]]]; try lia; reflexivity. Qed.

Lemma upd3_comm {A} i j (f g : A -> A) v :
  (forall x, f (g x) = g (f x)) -> upd3 i f (upd3 j g v) = upd3 j g (upd3 i f v).
Proof.
  intro Hc. destruct v as [a b c]. destruct i as [|[|i]], j as [|[|j]]; cbn; rewrite ?Hc; reflexivity.
Qed.

Lemma upd3_upd3 {A} i (f g : A -> A) v : upd3 i g (upd3 i f v) = upd3 i (fun x => g (f x)) v.
Proof. destruct i as [|[|i]]; reflexivity. Qed.

Lemma upd3_ext {A} i (f g : A -> A) v : (forall x, f x = g x) -> upd3 i f v = upd3 i g v.
Proof. intro He. destruct i as [|[|i]]; cbn; rewrite He; reflexivity. Qed.

Lemma add_target_comm t t' a b st :
  add_target t a (add_target t' b st) = add_target t' b (add_target t a st).
Proof.
  destruct t as [i|o i], t' as [i'|o' i']; cbn; try reflexivity; f_equal.
  - apply upd3_comm. intro x. ring.
  - unfold upd33. apply upd3_comm. intro r. apply upd3_comm. intro x. ring.
Qed.

Lemma add_target_add t a b st : add_target t b (add_target t a st) = add_target t (a + b) st.
Proof.
  destruct t as [i|o i]; cbn; f_equal.
  - rewrite upd3_upd3. apply upd3_ext. intro x. ring.
  - unfold upd33. rewrite upd3_upd3. apply upd3_ext. intro r.
    rewrite upd3_upd3. apply upd3_ext. intro x. ring.
Qed.

Lemma read_add_same t xi st :
  read_target t (add_target t xi st) = read_target t st + xi.
Proof.
  destruct t as [a|o i]; cbn.
  - rewrite get3_upd3_same. reflexivity.
  - unfold get33, upd33. rewrite !get3_upd3_same. ring.
Qed.

Lemma read_add_other t t' xi st :
  valid_target t -> valid_target t' -> t <> t' ->
  read_target t (add_target t' xi st) = read_target t st.
Proof.
  destruct t as [a|o i], t' as [a'|o' i']; cbn; intros Hv Hv' Hne; try reflexivity.
  - apply get3_upd3_other; try lia. congruence.
  - f_equal. unfold get33, upd33. destruct Hv as [Ho Hi], Hv' as [Ho' Hi'].
    destruct (Nat.eq_dec o o') as [->|Hoo].
    + rewrite get3_upd3_same. apply get3_upd3_other; try lia. congruence.
    + rewrite get3_upd3_other by lia. reflexivity.
Qed.

Lemma add_all_cons t ts xi xs st :
  add_all (t :: ts) (xi :: xs) st = add_all ts xs (add_target t xi st).
Proof. reflexivity. Qed.

Lemma add_target_add_all t a ts xs st :
  add_target t a (add_all ts xs st) = add_all ts xs (add_target t a st).
Proof.
  revert xs st. induction ts as [|t' ts IH]; intros xs st; [reflexivity|].
  destruct xs as [|xi xs]; [reflexivity|]. rewrite !add_all_cons, IH, add_target_comm. reflexivity.
Qed.

(** [accumulate]: two updates equal one update with the sum. *)
Lemma add_all_accumulate ts x1 x2 st :
  List.length x1 = List.length ts -> List.length x2 = List.length ts ->
  add_all ts x2 (add_all ts x1 st) = add_all ts (vadd x1 x2) st.
Proof.
  revert x1 x2 st. induction ts as [|t ts IH]; intros x1 x2 st H1 H2.
  - destruct x1, x2; reflexivity.
  - destruct x1 as [|a x1]; [discriminate|]. destruct x2 as [|b x2]; [discriminate|].
    unfold vadd. cbn [combine map fst snd]. rewrite !add_all_cons.
    rewrite add_target_add_all, add_target_add. apply IH; cbn in *; lia.
Qed.

Lemma vadd_length x y : List.length x = List.length y -> List.length (vadd x y) = List.length x.
Proof. intro H. unfold vadd. rewrite map_length, combine_length. lia. Qed.

Lemma accumulate bias_sd noise bias_walk sm_sd m x1 x2 st st1 st2 :
  build bias_sd noise bias_walk sm_sd = Some m ->
  update m x1 st = Some st1 -> update m x2 st1 = Some st2 ->
  update m (vadd x1 x2) st = Some st2.
Proof.
  intros Hb. rewrite !(update_spec _ _ _ _ _ _ _ Hb).
  destruct (targets_length _ _ _ _ _ Hb) as [Hl _].
  destruct (Nat.eqb (List.length x1) (n_states m)) eqn:E1; [|discriminate].
  destruct (Nat.eqb (List.length x2) (n_states m)) eqn:E2; [|discriminate].
  apply Nat.eqb_eq in E1, E2. intros H1 H2. injection H1 as <-. injection H2 as <-.
  rewrite vadd_length by lia. rewrite E1, Nat.eqb_refl. f_equal. symmetry.
  apply add_all_accumulate; lia.
Qed.

Lemma read_add_all_notin t ts xs st :
  valid_target t -> Forall valid_target ts -> ~ In t ts ->
  read_target t (add_all ts xs st) = read_target t st.
Proof.
  intros Ht Hv. revert xs st. induction Hv as [|t' ts Ht' Hv IH]; intros xs st Hn; [reflexivity|].
  destruct xs as [|xi xs]; [reflexivity|]. rewrite add_all_cons, IH by (cbn in Hn; tauto).
  apply read_add_other; auto. cbn in Hn. intro E. apply Hn. left. congruence.
Qed.

Lemma read_all_add_all ts xs st :
  Forall valid_target ts -> NoDup ts -> List.length xs = List.length ts ->
  map (fun t => read_target t (add_all ts xs st)) ts
  = vadd (map (fun t => read_target t st) ts) xs.
Proof.
  intros Hv Hnd. revert xs st. induction Hnd as [|t ts Hnot Hnd IH]; intros xs st Hl.
  - destruct xs; reflexivity.
  - destruct xs as [|xi xs]; [discriminate|]. inversion Hv as [|? ? Ht Hv']; subst.
    rewrite add_all_cons. unfold vadd. cbn [map combine fst snd]. f_equal.
    + rewrite read_add_all_notin by assumption. apply read_add_same.
    + fold (vadd (map (fun t0 => read_target t0 st) ts) xs).
      rewrite IH by (auto; cbn in Hl; lia). f_equal.
      apply map_ext_in. intros t' Hin. apply read_add_other; auto.
      * rewrite Forall_forall in Hv'. now apply Hv'.
      * intro E. subst. contradiction.
Qed.

(** one update adds [x] componentwise (in state order) to what [get_estimates] returns *)
Lemma get_update bias_sd noise bias_walk sm_sd m x st st' g :
  build bias_sd noise bias_walk sm_sd = Some m ->
  get_estimates m st = Some g -> update m x st = Some st' ->
  get_estimates m st' = Some (vadd g x).
Proof.
  intros Hb. rewrite !(get_estimates_spec _ _ _ _ _ _ Hb), (update_spec _ _ _ _ _ _ _ Hb).
  destruct (targets_length _ _ _ _ _ Hb) as [Hl _].
  destruct (Nat.eqb (List.length x) (n_states m)) eqn:E1; [|discriminate]. apply Nat.eqb_eq in E1.
  intros Hg Hu. injection Hg as <-. injection Hu as <-. f_equal.
  apply read_all_add_all; [apply targets_valid|apply targets_NoDup|lia].
Qed.

Lemma read_reset t : valid_target t -> read_target t reset = 0.
Proof.
  destruct t as [a|o i]; cbn.
  - intro Ha. destruct a as [|[|[|a]]]; try lia; reflexivity.
  - intros [Ho Hi]. destruct o as [|[|[|o]]]; try lia; destruct i as [|[|[|i]]]; try lia;
      apply Qc_is_canon; reflexivity.
Qed.

Lemma read_reset_all ts :
  Forall valid_target ts -> map (fun t => read_target t reset) ts = repeat 0 (List.length ts).
Proof.
  induction 1 as [|t ts Ht Hv IH]; [reflexivity|].
  cbn [map List.length repeat]. rewrite (read_reset _ Ht), IH. reflexivity.
Qed.

Lemma get_reset bias_sd noise bias_walk sm_sd m :
  build bias_sd noise bias_walk sm_sd = Some m ->
  get_estimates m reset = Some (repeat 0 (n_states m)).
Proof.
  intro Hb. rewrite (get_estimates_spec _ _ _ _ _ _ Hb). f_equal.
  destruct (targets_length _ _ _ _ _ Hb) as [Hl _]. rewrite <- Hl.
  apply read_reset_all, targets_valid.
Qed.

Lemma get_updates bias_sd noise bias_walk sm_sd m xs : 
  build bias_sd noise bias_walk sm_sd = Some m ->
  forall st st' g, get_estimates m st = Some g -> updates m xs st = Some st' ->
  get_estimates m st' = Some (fold_left vadd xs g).
Proof.
  intro Hb. induction xs as [|x xs IH]; intros st st' g Hg Hu; cbn in *.
  - congruence.
  - destruct (update m x st) as [st1|] eqn:E; [|discriminate].
    eapply IH; [|exact Hu]. eapply get_update; eauto.
Qed.

(** [get_after_update] *)
Lemma get_after_update bias_sd noise bias_walk sm_sd m xs st' :
  build bias_sd noise bias_walk sm_sd = Some m ->
  updates m xs reset = Some st' ->
  get_estimates m st' = Some (vsum (n_states m) xs).
Proof.
  intros Hb Hu.
  exact (get_updates _ _ _ _ _ xs Hb reset st' _ (get_reset _ _ _ _ _ Hb) Hu).
Qed.

(** updates succeed exactly when all lengths match *)
Lemma updates_defined bias_sd noise bias_walk sm_sd m xs st :
  build bias_sd noise bias_walk sm_sd = Some m ->
  Forall (fun x => List.length x = n_states m) xs -> exists st', updates m xs st = Some st'.
Proof.
  intros Hb Hf. revert st. induction Hf as [|x xs Hx Hf IH]; intro st; cbn; [eauto|].
  rewrite (update_spec _ _ _ _ _ _ _ Hb), Hx, Nat.eqb_refl. apply IH.
Qed.

(* ------------------------------------------------------------------ *)
(** * Layout: dimensions and entries *)

Lemma filter_length_le' {A} (p : A -> bool) l : (List.length (filter p l) <= List.length l)%nat.
Proof. induction l as [|x l IH]; cbn; [lia|]. destruct (p x); cbn; lia. Qed.

Lemma pairs9_length : List.length pairs9 = 9%nat.
Proof. reflexivity. Qed.

Lemma layout_dimensions bias_sd noise bias_walk sm_sd m :
  build bias_sd noise bias_walk sm_sd = Some m ->
  List.length (states m) = n_states m /\ List.length (P m) = n_states m /\
  List.length (q m) = n_noises m /\ List.length (v m) = n_output_noises m /\
  List.length (G m) = n_noises m /\ List.length (J m) = n_output_noises m /\
  (n_states m <= 12)%nat /\ (n_noises m <= 3)%nat /\ (n_output_noises m <= 3)%nat /\
  (n_noises m <= n_states m)%nat.
Proof.
  intro Hb. destruct (build_spec _ _ _ _ _ Hb) as (Hst & Hns & Hnn & Hno & HP & Hq & Hv & HG & HH & HJ & Hsm).
  rewrite Hst, HP, Hq, Hv, HG, HJ, Hns, Hnn, Hno.
  rewrite !app_length, !indexed_length, !map_length.
  pose proof (filter_length_le' (fun a => Qcpos (get3 a bias_sd)) (seq 0 3)) as H1.
  pose proof (filter_length_le' (fun a => Qcpos (get3 a bias_walk)) (enb bias_sd)) as H2.
  pose proof (filter_length_le' (fun a => Qcpos (get3 a noise)) (seq 0 3)) as H3.
  pose proof (filter_length_le' (fun oi => Qcpos (get33 (fst oi) (snd oi) sm_sd)) pairs9) as H4.
  rewrite seq_length in H1, H3. rewrite pairs9_length in H4.
  fold (enb bias_sd) in H1. fold (enw bias_sd bias_walk) in H2. fold (enn noise) in H3. fold (ensm sm_sd) in H4.
  repeat split; lia.
Qed.

Lemma dense_shape rows cols l :
  List.length (dense rows cols l) = rows /\
  Forall (fun r => List.length r = cols) (dense rows cols l).
Proof.
  unfold dense. rewrite map_length, seq_length. split; [reflexivity|].
  apply Forall_forall. intros r Hr. apply in_map_iff in Hr. destruct Hr as (x & <- & _).
  now rewrite map_length, seq_length.
Qed.

(** shapes of the dense matrices: G n_states x n_noises, H 3 x n_states, J 3 x n_output_noises,
    P and F n_states x n_states; F is zero, P is diagonal *)
Lemma matrix_shapes bias_sd noise bias_walk sm_sd m :
  build bias_sd noise bias_walk sm_sd = Some m ->
  (List.length (G_dense m) = n_states m /\ Forall (fun r => List.length r = n_noises m) (G_dense m)) /\
  (List.length (H_dense m) = 3%nat /\ Forall (fun r => List.length r = n_states m) (H_dense m)) /\
  (List.length (J_dense m) = 3%nat /\ Forall (fun r => List.length r = n_output_noises m) (J_dense m)) /\
  (List.length (P_dense m) = n_states m /\ Forall (fun r => List.length r = n_states m) (P_dense m)) /\
  (List.length (F_dense m) = n_states m /\ Forall (fun r => List.length r = n_states m) (F_dense m)) /\
  Forall (Forall (fun x => x = 0)) (F_dense m).
Proof.
  intro Hb. destruct (layout_dimensions _ _ _ _ _ Hb) as (_ & HP & _).
  repeat split; try apply dense_shape.
  - unfold P_dense, diag. now rewrite map_length, seq_length.
  - unfold P_dense, diag. apply Forall_forall. intros r Hr. apply in_map_iff in Hr.
    destruct Hr as (x & <- & _). now rewrite map_length, seq_length.
  - unfold F_dense. now rewrite map_length, seq_length.
  - unfold F_dense. apply Forall_forall. intros r Hr. apply in_map_iff in Hr.
    destruct Hr as (x & <- & _). now rewrite map_length, seq_length.
  - unfold F_dense. apply Forall_forall. intros r Hr. apply in_map_iff in Hr.
    destruct Hr as (x & <- & _). apply Forall_forall. intros y Hy. apply in_map_iff in Hy.
    now destruct Hy as (z & <- & _).
Qed.

(** enabled lists: membership *)
Lemma enb_In bias_sd a : In a (enb bias_sd) <-> (a < 3)%nat /\ 0 < get3 a bias_sd.
Proof. unfold enb. rewrite filter_In, in_seq, Qcpos_spec. intuition lia. Qed.

Lemma enw_In bias_sd bias_walk a :
  In a (enw bias_sd bias_walk) <-> (a < 3)%nat /\ 0 < get3 a bias_sd /\ 0 < get3 a bias_walk.
Proof. unfold enw. rewrite filter_In, enb_In, Qcpos_spec. tauto. Qed.

Lemma enn_In noise a : In a (enn noise) <-> (a < 3)%nat /\ 0 < get3 a noise.
Proof. unfold enn. rewrite filter_In, in_seq, Qcpos_spec. intuition lia. Qed.

Lemma ensm_In sm_sd o i : In (o, i) (ensm sm_sd) <-> (o < 3 /\ i < 3)%nat /\ 0 < get33 o i sm_sd.
Proof. unfold ensm. rewrite filter_In, in_pairs9, Qcpos_spec. cbn [fst snd]. tauto. Qed.

(** position of an enabled axis among the enabled ones *)
Lemma nth_error_filter_seq (p : nat -> bool) n a :
  (a < n)%nat -> p a = true ->
  nth_error (filter p (seq 0 n)) (List.length (filter p (seq 0 a))) = Some a.
Proof.
  induction n as [|n IH]; intros Ha Hp; [lia|].
  rewrite filter_seq_S. destruct (Nat.eq_dec a n) as [->|Hne].
  - rewrite Hp, nth_error_app2 by lia. rewrite Nat.sub_diag. reflexivity.
  - rewrite nth_error_app1; [apply IH; [lia|exact Hp]|].
    assert (Hs : seq 0 n = seq 0 a ++ seq a (n - a)).
    { replace n with (a + (n - a))%nat at 1 by lia. apply seq_app. }
    rewrite Hs, filter_app, app_length.
    destruct (n - a)%nat as [|d] eqn:Ed; [lia|]. cbn [seq filter]. rewrite Hp. cbn. lia.
Qed.

Lemma bias_rank_nth bias_sd a :
  In a (enb bias_sd) -> nth_error (enb bias_sd) (bias_rank bias_sd a) = Some a.
Proof.
  intro Hin. unfold enb in *. apply filter_In in Hin. destruct Hin as [Hs Hp]. apply in_seq in Hs.
  unfold bias_rank. apply nth_error_filter_seq; [lia|exact Hp].
Qed.

Lemma enw_incl_enb bias_sd bias_walk a : In a (enw bias_sd bias_walk) -> In a (enb bias_sd).
Proof. unfold enw. rewrite filter_In. tauto. Qed.

Lemma bias_state_position bias_sd noise bias_walk sm_sd m a :
  build bias_sd noise bias_walk sm_sd = Some m -> In a (enb bias_sd) ->
  nth_error (states m) (bias_rank bias_sd a) = Some (bias_name a).
Proof.
  intros Hb Hin. rewrite <- (H_positions _ _ _ _ _ a _ Hb).
  destruct (build_spec _ _ _ _ _ Hb) as (_ & _ & _ & _ & _ & _ & _ & _ & HH & _).
  rewrite HH, In_indexed, Nat.sub_0_r. split; [lia|now apply bias_rank_nth].
Qed.

(** G: one unit entry per walking bias, in the row of that bias state; q lists the walk
    intensities in the same column order *)
Lemma G_entries bias_sd noise bias_walk sm_sd m :
  build bias_sd noise bias_walk sm_sd = Some m ->
  (forall r c, In (r, c) (G m) <->
     exists a, nth_error (enw bias_sd bias_walk) c = Some a /\ r = bias_rank bias_sd a) /\
  (forall r c, In (r, c) (G m) ->
     exists a, nth_error (states m) r = Some (bias_name a) /\ 0 < get3 a bias_walk /\
               nth_error (q m) c = Some (get3 a bias_walk) /\ (r < n_states m)%nat /\ (c < n_noises m)%nat) /\
  q m = map (fun a => get3 a bias_walk) (enw bias_sd bias_walk).
Proof.
  intro Hb. destruct (build_spec _ _ _ _ _ Hb) as (_ & Hns & Hnn & _ & _ & Hq & _ & HG & _).
  assert (H1 : forall r c, In (r, c) (G m) <->
     exists a, nth_error (enw bias_sd bias_walk) c = Some a /\ r = bias_rank bias_sd a).
  { intros r c. rewrite HG, In_indexed, Nat.sub_0_r, nth_error_map. split.
    - intros [_ Hn]. destruct (nth_error (enw bias_sd bias_walk) c) as [a|]; [|discriminate].
      exists a. cbn in Hn. split; congruence.
    - intros (a & -> & ->). split; [lia|reflexivity]. }
  split; [exact H1|]. split; [|exact Hq].
  intros r c Hin. apply H1 in Hin. destruct Hin as (a & Hn & ->). exists a.
  pose proof (nth_error_In _ _ Hn) as Hin. pose proof (enw_incl_enb _ _ _ Hin) as Hinb.
  apply enw_In in Hin. destruct Hin as (Ha & Hbs & Hw).
  split; [now apply (bias_state_position _ _ _ _ _ _ Hb)|]. split; [exact Hw|].
  split; [rewrite Hq, nth_error_map, Hn; reflexivity|].
  split.
  - assert (X : (bias_rank bias_sd a < List.length (enb bias_sd))%nat)
      by (apply nth_error_Some; rewrite (bias_rank_nth _ _ Hinb); discriminate). lia.
  - rewrite Hnn. apply nth_error_Some. congruence.
Qed.

(** J: one unit entry per noisy axis, columns in axis order; v lists the intensities *)
Lemma J_entries bias_sd noise bias_walk sm_sd m :
  build bias_sd noise bias_walk sm_sd = Some m ->
  (forall a c, In (a, c) (J m) <-> nth_error (enn noise) c = Some a) /\
  (forall a c, In (a, c) (J m) ->
     (a < 3)%nat /\ 0 < get3 a noise /\ nth_error (v m) c = Some (get3 a noise) /\ (c < n_output_noises m)%nat) /\
  v m = map (fun a => get3 a noise) (enn noise).
Proof.
  intro Hb. destruct (build_spec _ _ _ _ _ Hb) as (_ & _ & _ & Hno & _ & _ & Hv & _ & _ & HJ & _).
  assert (H1 : forall a c, In (a, c) (J m) <-> nth_error (enn noise) c = Some a).
  { intros a c. rewrite HJ, In_indexed, Nat.sub_0_r. split; [tauto|]. intro; split; [lia|assumption]. }
  split; [exact H1|]. split; [|exact Hv].
  intros a c Hin. apply H1 in Hin. pose proof (nth_error_In _ _ Hin) as Hi. apply enn_In in Hi.
  destruct Hi as [Ha Hn]. repeat split; try assumption.
  - rewrite Hv, nth_error_map, Hin. reflexivity.
  - rewrite Hno. apply nth_error_Some. congruence.
Qed.

(** H: a unit at (axis, state) exactly for the bias state of that axis *)
Lemma H_entries bias_sd noise bias_walk sm_sd m :
  build bias_sd noise bias_walk sm_sd = Some m ->
  (forall a s, In (a, s) (H m) <-> nth_error (states m) s = Some (bias_name a)) /\
  (forall a s, In (a, s) (H m) -> (a < 3)%nat /\ 0 < get3 a bias_sd /\ (s < n_states m)%nat).
Proof.
  intro Hb. split; [intros a s; now apply (H_positions _ _ _ _ _ a s Hb)|].
  intros a s Hin. destruct (build_spec _ _ _ _ _ Hb) as (_ & Hns & _ & _ & _ & _ & _ & _ & HH & _).
  rewrite HH, In_indexed, Nat.sub_0_r in Hin. destruct Hin as [_ Hn].
  pose proof (nth_error_In _ _ Hn) as Hi. apply enb_In in Hi. destruct Hi as [Ha Hp].
  repeat split; try assumption. rewrite Hns.
  assert (s < List.length (enb bias_sd))%nat by (apply nth_error_Some; congruence). lia.
Qed.

(** P: the initial variance of every state is the squared sd of the term it was created for *)
Lemma P_entries bias_sd noise bias_walk sm_sd m :
  build bias_sd noise bias_walk sm_sd = Some m ->
  P m = map (sd_sq bias_sd sm_sd) (targets bias_sd sm_sd) /\
  Forall (fun x => 0 < x) (P m).
Proof.
  intro Hb. destruct (build_spec _ _ _ _ _ Hb) as (_ & _ & _ & _ & HP & _).
  assert (E : P m = map (sd_sq bias_sd sm_sd) (targets bias_sd sm_sd)).
  { rewrite HP. unfold targets. rewrite map_app, !map_map. reflexivity. }
  split; [exact E|]. rewrite E. apply Forall_forall. intros x Hx. apply in_map_iff in Hx.
  destruct Hx as (t & <- & Ht). unfold targets in Ht. apply in_app_or in Ht.
  assert (Hsq : forall y, 0 < y -> 0 < sq y).
  { intros y Hy. unfold sq. replace 0 with (0 * y) by ring. apply Qcmult_lt_compat_r; assumption. }
  destruct Ht as [Ht|Ht]; apply in_map_iff in Ht; destruct Ht as (z & <- & Hz); cbn.
  - apply enb_In in Hz. apply Hsq. tauto.
  - destruct z as [o i]. apply ensm_In in Hz. apply Hsq. tauto.
Qed.

(** order: state k is the k-th enabled term in the fixed order
    bias x, y, z, then sm xx, xy, xz, yx, ..., zz (row-major = sm_<out><in>) *)
Lemma states_order bias_sd noise bias_walk sm_sd m :
  build bias_sd noise bias_walk sm_sd = Some m ->
  states m = map name_of (targets bias_sd sm_sd) /\
  targets bias_sd sm_sd = filter (target_en bias_sd sm_sd) all_targets /\
  StronglySorted lt (map key (targets bias_sd sm_sd)) /\
  Forall valid_target (targets bias_sd sm_sd).
Proof.
  intro Hb. split; [now apply (states_targets _ _ _ _ _ Hb)|].
  split; [apply targets_filter|]. split; [apply targets_sorted|apply targets_valid].
Qed.

Lemma all_targets_names :
  map name_of all_targets =
  ["bias_x"; "bias_y"; "bias_z"; "sm_xx"; "sm_xy"; "sm_xz"; "sm_yx"; "sm_yy"; "sm_yz";
   "sm_zx"; "sm_zy"; "sm_zz"]%string.
Proof. reflexivity. Qed.

(* ------------------------------------------------------------------ *)
(** * Names agree with the simulator's data_frame *)

Lemma columns_states bias_sd noise bias_walk sm_sd m p :
  build bias_sd noise bias_walk sm_sd = Some m ->
  (forall a, (a < 3)%nat -> col_bias_en p a = Qcpos (get3 a bias_sd)) ->
  (forall o i, (o < 3)%nat -> (i < 3)%nat -> col_sm_en p (o, i) = Qcpos (get33 o i sm_sd)) ->
  columns p = states m /\
  df_row p = state_vector bias_sd sm_sd (p_b p) (msub (p_T p) ident3).
Proof.
  intros Hb H1 H2. destruct (build_spec _ _ _ _ _ Hb) as (Hst & _).
  assert (E1 : filter (col_bias_en p) (seq 0 3) = enb bias_sd).
  { unfold enb. apply filter_ext_in. intros a Ha. apply in_seq in Ha. apply H1. lia. }
  assert (E2 : filter (col_sm_en p) pairs9 = ensm sm_sd).
  { unfold ensm. apply filter_ext_in. intros [o i] Hoi. apply in_pairs9 in Hoi. cbn [fst snd].
    apply H2; lia. }
  split.
  - unfold columns. rewrite Hst, E1, E2. reflexivity.
  - unfold df_row, df_row_at, state_vector. rewrite E1, E2. f_equal.
    apply map_ext_in. intros [o i] Hoi. apply ensm_In in Hoi. destruct Hoi as [[Ho Hi] _].
    cbn [fst snd]. destruct o as [|[|[|o]]]; try lia; destruct i as [|[|[|i]]]; try lia; reflexivity.
Qed.

(* ------------------------------------------------------------------ *)
(** * The output matrix times the state vector is the simulated reading error *)

Definition coef (axis : nat) (r : V3 Qc) (t : target) : Qc :=
  match t with
  | TBias a => ind (Nat.eqb a axis)
  | TSm o i => if Nat.eqb o axis then get3 i r else 0
  end.
Definition val (b : V3 Qc) (E : M3) (t : target) : Qc :=
  match t with TBias a => get3 a b | TSm o i => get33 o i E end.

Lemma has_entry_In r c l : has_entry r c l = true <-> In (r, c) l.
Proof.
  unfold has_entry. rewrite existsb_exists. split.
  - intros ([a b] & Hin & He). cbn in He. apply andb_prop in He. destruct He as [H1 H2].
    apply Nat.eqb_eq in H1, H2. now subst.
  - intro Hin. exists (r, c). split; [exact Hin|]. cbn. now rewrite !Nat.eqb_refl.
Qed.

Lemma has_entry_indexed r c L :
  has_entry r c (indexed 0 L) = match nth_error L c with Some x => Nat.eqb x r | None => false end.
Proof.
  apply eq_true_iff_eq. rewrite has_entry_In, In_indexed, Nat.sub_0_r.
  destruct (nth_error L c) as [x|].
  - rewrite Nat.eqb_eq. split; [intros [_ E]; congruence|intros ->; split; [lia|reflexivity]].
  - split; [intros [_ E]; discriminate|discriminate].
Qed.

Lemma om_entry_spec bias_sd noise bias_walk sm_sd m r axis s t :
  build bias_sd noise bias_walk sm_sd = Some m ->
  nth_error (targets bias_sd sm_sd) s = Some t ->
  om_entry m r axis s = coef axis r t.
Proof.
  intros Hb Ht.
  destruct (build_spec _ _ _ _ _ Hb) as (_ & _ & _ & _ & _ & _ & _ & _ & HH & _ & Hsm).
  unfold om_entry. rewrite HH, Hsm. rewrite nth_error_targets in Ht.
  destruct (s <? List.length (enb bias_sd))%nat eqn:El.
  - apply Nat.ltb_lt in El.
    rewrite (find_indexed_out (ensm sm_sd) _ s);
      [|intros e He; apply andb_prop in He; destruct He as [_ He]; now apply Nat.eqb_eq in He|left; exact El].
    rewrite has_entry_indexed.
    destruct (nth_error (enb bias_sd) s) as [a|]; [|discriminate]. cbn in Ht. injection Ht as <-.
    cbn. reflexivity.
  - apply Nat.ltb_ge in El.
    destruct (nth_error (ensm sm_sd) (s - List.length (enb bias_sd))) as [[o i]|] eqn:En; [|discriminate].
    cbn in Ht. injection Ht as <-.
    assert (Hl : (s - List.length (enb bias_sd) < List.length (ensm sm_sd))%nat)
      by (apply nth_error_Some; congruence).
    rewrite (find_indexed_in (ensm sm_sd) _ (s - List.length (enb bias_sd)) (0%nat, 0%nat) _
               (fun oi => Nat.eqb (fst oi) axis));
      [|intro e; cbn beta; do 2 f_equal; lia|exact Hl].
    rewrite (nth_error_nth _ _ (0%nat, 0%nat) En). cbn [fst snd coef].
    destruct (Nat.eqb o axis); [reflexivity|].
    rewrite has_entry_indexed.
    assert (Hn : nth_error (enb bias_sd) s = None) by (now apply nth_error_None).
    rewrite Hn. reflexivity.
Qed.

Lemma map_seq_nth {A B} (l : list A) (g : nat -> B) (f : A -> B) k :
  (forall s t, nth_error l s = Some t -> g (k + s)%nat = f t) ->
  map g (seq k (List.length l)) = map f l.
Proof.
  revert k. induction l as [|x l IH]; intros k Hg; [reflexivity|].
  cbn [List.length seq map]. f_equal.
  - rewrite <- (Nat.add_0_r k). apply Hg. reflexivity.
  - apply IH. intros s t Hs. replace (S k + s)%nat with (k + S s)%nat by lia. apply Hg. exact Hs.
Qed.

Lemma om_row_spec bias_sd noise bias_walk sm_sd m r axis :
  build bias_sd noise bias_walk sm_sd = Some m ->
  om_row m r axis = map (coef axis r) (targets bias_sd sm_sd).
Proof.
  intro Hb. unfold om_row. destruct (targets_length _ _ _ _ _ Hb) as [Hl _]. rewrite <- Hl.
  apply map_seq_nth. intros s t Hs. cbn. now apply (om_entry_spec _ _ _ _ _ _ _ _ _ Hb).
Qed.

Lemma state_vector_val bias_sd sm_sd b E :
  state_vector bias_sd sm_sd b E = map (val b E) (targets bias_sd sm_sd).
Proof. unfold state_vector, targets. rewrite map_app, !map_map. reflexivity. Qed.

Lemma dot_filter {A} (f g : A -> Qc) (p : A -> bool) l :
  (forall x, In x l -> p x = false -> g x = 0) ->
  dot (map f (filter p l)) (map g (filter p l)) = dot (map f l) (map g l).
Proof.
  induction l as [|x l IH]; intro Hz; [reflexivity|]. cbn [filter map dot].
  destruct (p x) eqn:Ep.
  - cbn [map dot]. rewrite IH; [reflexivity|]. intros y Hy. apply Hz. now right.
  - rewrite IH by (intros y Hy; apply Hz; now right).
    rewrite (Hz x (or_introl eq_refl) Ep). ring.
Qed.

Lemma all_targets_list :
  all_targets = [TBias 0; TBias 1; TBias 2; TSm 0 0; TSm 0 1; TSm 0 2;
                 TSm 1 0; TSm 1 1; TSm 1 2; TSm 2 0; TSm 2 1; TSm 2 2].
Proof. reflexivity. Qed.

Lemma all_targets_valid t : In t all_targets <-> valid_target t.
Proof.
  split.
  - rewrite all_targets_list. cbn [In]. intros H; repeat (destruct H as [<-|H]; [cbn; lia|]); contradiction.
  - rewrite all_targets_list. destruct t as [a|o i]; cbn [valid_target].
    + intro Ha. destruct a as [|[|[|a]]]; try lia; cbn; tauto.
    + intros [Ho Hi]. destruct o as [|[|[|o]]]; try lia; destruct i as [|[|[|i]]]; try lia;
        cbn; tauto.
Qed.

Lemma val_disabled bias_sd sm_sd b E t :
  bias_supported bias_sd b -> sm_supported sm_sd E -> valid_target t ->
  target_en bias_sd sm_sd t = false -> val b E t = 0.
Proof.
  intros Hsb Hse Hv Hen. destruct t as [a|o i]; cbn in *.
  - now apply Hsb.
  - destruct Hv. now apply Hse.
Qed.

Lemma dot_all_targets axis r b E :
  (axis < 3)%nat ->
  dot (map (coef axis r) all_targets) (map (val b E) all_targets) = get3 axis (add3 (mv3 E r) b).
Proof.
  intro Ha. rewrite all_targets_list.
  destruct b as [b0 b1 b2], E as [[e00 e01 e02] [e10 e11 e12] [e20 e21 e22]], r as [r0 r1 r2].
  destruct axis as [|[|[|axis]]]; try lia;
    cbn [map dot coef val Nat.eqb ind get3 get33 add3 mv3 dot3 c0 c1 c2]. all: unfold dot3; cbn [c0 c1 c2]; ring.
Qed.

(** [output_matrix_is_error] *)
Lemma output_matrix_state_vector bias_sd noise bias_walk sm_sd m r b E :
  build bias_sd noise bias_walk sm_sd = Some m ->
  bias_supported bias_sd b -> sm_supported sm_sd E ->
  mat_vec (output_matrix m r) (state_vector bias_sd sm_sd b E) = v3_list (add3 (mv3 E r) b).
Proof.
  intros Hb Hsb Hse. unfold mat_vec, output_matrix. rewrite map_map. cbn [seq map].
  rewrite !(om_row_spec _ _ _ _ _ _ _ Hb), state_vector_val, targets_filter.
  rewrite !dot_filter;
    try (intros t Ht; apply val_disabled; auto; now apply all_targets_valid).
  rewrite !dot_all_targets by lia. reflexivity.
Qed.

Lemma msub_ident_get T o i : (o < 3)%nat -> (i < 3)%nat ->
  get33 o i (msub T ident3) = get33 o i T - delta o i.
Proof.
  intros Ho Hi. destruct o as [|[|[|o]]]; try lia; destruct i as [|[|[|i]]]; try lia; reflexivity.
Qed.

Lemma sim_error_rate p dt r :
  sub3 (sim_row p Rate dt r) r = add3 (mv3 (msub (p_T p) ident3) r) (p_b p).
Proof.
  destruct p as [[[a b c] [d e f] [g h i]] [b0 b1 b2] n w], r as [x y z].
  cbn. unfold sub3, add3, mv3, dot3. cbn. f_equal; ring.
Qed.

Lemma sim_error_increment p dt r :
  sub3 (sim_row p Increment dt (scale3 r dt)) (scale3 r dt)
  = scale3 (add3 (mv3 (msub (p_T p) ident3) r) (p_b p)) dt.
Proof.
  destruct p as [[[a b c] [d e f] [g h i]] [b0 b1 b2] n w], r as [x y z].
  cbn. unfold sub3, add3, mv3, dot3, scale3. cbn. f_equal; ring.
Qed.

Lemma sim_rate_times_dt p dt r :
  scale3 (sim_row p Rate dt r) dt = sim_row p Increment dt (scale3 r dt).
Proof.
  destruct p as [[[a b c] [d e f] [g h i]] [b0 b1 b2] n w], r as [x y z].
  cbn. unfold add3, mv3, dot3, scale3. cbn. f_equal; ring.
Qed.

(** H(r) x = simulated noise-free reading error, rate and increment sensors *)
Lemma output_matrix_is_error bias_sd noise bias_walk sm_sd m p dt r :
  build bias_sd noise bias_walk sm_sd = Some m ->
  bias_supported bias_sd (p_b p) -> sm_supported sm_sd (msub (p_T p) ident3) ->
  let x := state_vector bias_sd sm_sd (p_b p) (msub (p_T p) ident3) in
  mat_vec (output_matrix m r) x = v3_list (sub3 (sim_row p Rate dt r) r) /\
  map (fun e => e * dt) (mat_vec (output_matrix m r) x)
    = v3_list (sub3 (sim_row p Increment dt (scale3 r dt)) (scale3 r dt)).
Proof.
  intros Hb Hsb Hse x. unfold x.
  rewrite (output_matrix_state_vector _ _ _ _ _ r _ _ Hb Hsb Hse).
  rewrite sim_error_rate, sim_error_increment. split; reflexivity.
Qed.

(* ------------------------------------------------------------------ *)
(** * Estimates equal to the parameters; correction undoes the simulated error *)

Lemma solve3_mv3 M x : det3 M <> 0 -> solve3 M (mv3 M x) = Some x.
Proof.
  intro Hd. unfold solve3. destruct (Qc_eq_dec (det3 M) 0) as [E|_]; [contradiction|]. f_equal.
  destruct M as [[a b c] [d e f] [g h i]], x as [x y z].
  unfold det3 in *. unfold scale3, mv3, adj3, dot3. cbn [c0 c1 c2]. f_equal; field; exact Hd.
Qed.

Lemma solve3_sound M r x : solve3 M r = Some x -> mv3 M x = r.
Proof.
  unfold solve3. destruct (Qc_eq_dec (det3 M) 0) as [E|Hd]; [discriminate|].
  intro E. injection E as <-.
  destruct M as [[a b c] [d e f] [g h i]], r as [x y z].
  unfold det3 in *. unfold scale3, mv3, adj3, dot3. cbn [c0 c1 c2]. f_equal; field; exact Hd.
Qed.

Lemma correct_sim_row T b dt theta n w :
  det3 T <> 0 ->
  correct_increments (mk_est T b) dt (sim_row (mk_params T b n w) Increment dt theta) = Some theta.
Proof.
  intro Hd. unfold correct_increments, sim_row. cbn [e_T e_b p_T p_b].
  replace (sub3 (add3 (mv3 T theta) (scale3 b dt)) (scale3 b dt)) with (mv3 T theta).
  - now apply solve3_mv3.
  - destruct (mv3 T theta) as [x y z], b as [b0 b1 b2]. unfold sub3, add3, scale3. cbn [c0 c1 c2].
    f_equal; ring.
Qed.

Lemma est_ext st st' :
  (forall t, valid_target t -> read_target t st = read_target t st') -> st = st'.
Proof.
  intro Hr.
  assert (Hb : forall a, (a < 3)%nat -> get3 a (e_b st) = get3 a (e_b st'))
    by (intros a Ha; exact (Hr (TBias a) Ha)).
  assert (HT : forall o i, (o < 3)%nat -> (i < 3)%nat -> get33 o i (e_T st) = get33 o i (e_T st')).
  { intros o i Ho Hi. pose proof (Hr (TSm o i) (conj Ho Hi)) as E. cbn in E.
    replace (get33 o i (e_T st)) with (get33 o i (e_T st) - delta o i + delta o i) by ring.
    rewrite E. ring. }
  destruct st as [[[a b c] [d e f] [g h i]] [b0 b1 b2]],
           st' as [[[a' b' c'] [d' e' f'] [g' h' i']] [b0' b1' b2']].
  cbn [e_T e_b] in *.
  pose proof (Hb 0%nat ltac:(lia)) as E0. pose proof (Hb 1%nat ltac:(lia)) as E1.
  pose proof (Hb 2%nat ltac:(lia)) as E2.
  pose proof (HT 0%nat 0%nat ltac:(lia) ltac:(lia)) as T00.
  pose proof (HT 0%nat 1%nat ltac:(lia) ltac:(lia)) as T01.
  pose proof (HT 0%nat 2%nat ltac:(lia) ltac:(lia)) as T02.
  pose proof (HT 1%nat 0%nat ltac:(lia) ltac:(lia)) as T10.
  pose proof (HT 1%nat 1%nat ltac:(lia) ltac:(lia)) as T11.
  pose proof (HT 1%nat 2%nat ltac:(lia) ltac:(lia)) as T12.
  pose proof (HT 2%nat 0%nat ltac:(lia) ltac:(lia)) as T20.
  pose proof (HT 2%nat 1%nat ltac:(lia) ltac:(lia)) as T21.
  pose proof (HT 2%nat 2%nat ltac:(lia) ltac:(lia)) as T22.
  cbn in *. congruence.
Qed.

Lemma vadd_zeros xs : vadd (repeat 0 (List.length xs)) xs = xs.
Proof.
  induction xs as [|x xs IH]; [reflexivity|]. unfold vadd in *. cbn [List.length repeat combine map fst snd].
  rewrite IH. f_equal. ring.
Qed.

Lemma read_mk_est T b t :
  valid_target t -> read_target t (mk_est T b) = val b (msub T ident3) t.
Proof.
  destruct t as [a|o i]; cbn [valid_target read_target val e_T e_b]; [reflexivity|].
  intros [Ho Hi]. now rewrite msub_ident_get.
Qed.

(** updating a freshly reset model with the state vector that lists the simulator's
    parameters makes [transform], [bias] EQUAL to the simulator's *)
Lemma estimates_equal_parameters bias_sd noise bias_walk sm_sd m T b :
  build bias_sd noise bias_walk sm_sd = Some m ->
  bias_supported bias_sd b -> sm_supported sm_sd (msub T ident3) ->
  update m (state_vector bias_sd sm_sd b (msub T ident3)) reset = Some (mk_est T b).
Proof.
  intros Hb Hsb Hse. rewrite (update_spec _ _ _ _ _ _ _ Hb).
  destruct (targets_length _ _ _ _ _ Hb) as [Hl _].
  rewrite state_vector_val, map_length, Hl, Nat.eqb_refl. f_equal.
  set (ts := targets bias_sd sm_sd) in *. set (E := msub T ident3) in *.
  apply est_ext. intros t Hv. rewrite (read_mk_est _ _ _ Hv). fold E.
  destruct (in_dec (fun x y : target => ltac:(decide equality; apply Nat.eq_dec) : {x = y} + {x <> y}) t ts)
    as [Hin|Hnin].
  - pose proof (read_all_add_all ts (map (val b E) ts) reset (targets_valid _ _) (targets_NoDup _ _)
                  (map_length _ _)) as Hall.
    rewrite (read_reset_all ts (targets_valid _ _)) in Hall.
    rewrite <- (map_length (val b E) ts) in Hall. rewrite vadd_zeros in Hall.
    rewrite map_ext_in_iff in Hall. now apply Hall.
  - rewrite (read_add_all_notin t ts _ reset Hv (targets_valid _ _) Hnin), (read_reset _ Hv).
    symmetry. apply (val_disabled bias_sd sm_sd); auto.
    destruct (target_en bias_sd sm_sd t) eqn:Een; [|reflexivity]. exfalso. apply Hnin.
    unfold ts. rewrite targets_filter. apply filter_In. split; [now apply all_targets_valid|exact Een].
Qed.

(** [correct_undoes_apply], one sample *)
Lemma correct_undoes_apply bias_sd noise bias_walk sm_sd m p dt theta :
  build bias_sd noise bias_walk sm_sd = Some m ->
  bias_supported bias_sd (p_b p) -> sm_supported sm_sd (msub (p_T p) ident3) ->
  det3 (p_T p) <> 0 ->
  exists st, update m (state_vector bias_sd sm_sd (p_b p) (msub (p_T p) ident3)) reset = Some st /\
             get_estimates m st = Some (state_vector bias_sd sm_sd (p_b p) (msub (p_T p) ident3)) /\
             correct_increments st dt (sim_row p Increment dt theta) = Some theta.
Proof.
  intros Hb Hsb Hse Hd. exists (mk_est (p_T p) (p_b p)).
  split; [now apply (estimates_equal_parameters _ _ _ _ _ _ _ Hb)|]. split.
  - rewrite (get_estimates_spec _ _ _ _ _ _ Hb), state_vector_val. f_equal.
    apply map_ext_in. intros t Ht. apply read_mk_est.
    pose proof (targets_valid bias_sd sm_sd) as Hv. rewrite Forall_forall in Hv. now apply Hv.
  - destruct p as [T b n w]. cbn [p_T p_b] in *. now apply correct_sim_row.
Qed.

Lemma diffs_length ts : List.length (diffs ts) = pred (List.length ts).
Proof.
  induction ts as [|a [|b r] IH]; [reflexivity|reflexivity|].
  change (diffs (a :: b :: r)) with ((b - a) :: diffs (b :: r)).
  cbn [List.length]. rewrite IH. reflexivity.
Qed.

Lemma dt_raw_length ts : List.length (dt_raw ts) = List.length ts.
Proof.
  unfold dt_raw. destruct ts as [|a r]; [reflexivity|].
  cbn [List.length]. rewrite diffs_length. reflexivity.
Qed.

Lemma dt_used_length ts dts : dt_used ts = Some dts -> List.length dts = List.length ts.
Proof.
  unfold dt_used. pose proof (dt_raw_length ts) as Hl.
  destruct (dt_raw ts) as [|x [|d1 rest]]; try discriminate.
  intro E. injection E as <-. cbn [List.length] in *. exact Hl.
Qed.

(** [correct_undoes_apply], a whole record with irregular time stamps *)
Lemma correct_undoes_apply_series T b n w ts rs dts out :
  det3 T <> 0 ->
  dt_used ts = Some dts -> List.length rs = List.length ts ->
  sim_apply (mk_params T b n w) Increment ts rs = Some out ->
  map (fun d_o => correct_increments (mk_est T b) (fst d_o) (snd d_o)) (combine dts out) = map Some rs.
Proof.
  intros Hd Hdt Hl. unfold sim_apply. rewrite Hdt. intro E. injection E as <-.
  apply dt_used_length in Hdt. rewrite <- Hdt in Hl. clear Hdt ts.
  revert rs Hl. induction dts as [|dt dts IH]; intros [|r rs] Hl; try discriminate; [reflexivity|].
  cbn [combine map fst snd]. pose proof (correct_sim_row T b dt r n w Hd) as Hc.
  unfold sim_row in Hc. cbn [p_T p_b] in Hc. rewrite Hc. f_equal.
  apply IH. cbn in Hl. lia.
Qed.

(* ------------------------------------------------------------------ *)
(** * Parameters drawn by from_EstimationModel are named like the model's states *)

Lemma Qcpos_false_nonneg x : 0 <= x -> Qcpos x = false -> x = 0.
Proof.
  intros Hx Hp. apply Qcle_antisym; [|exact Hx].
  apply Qcnonpos_spec. rewrite Qcnonpos_negb, Hp. reflexivity.
Qed.

Lemma Qcnz_spec x : Qcnz x = true <-> x <> 0.
Proof. unfold Qcnz, Qcneq. destruct (Qc_eq_dec x 0); split; congruence. Qed.

Lemma Qcmult_nz x y : x <> 0 -> y <> 0 -> x * y <> 0.
Proof. intros Hx Hy E. apply Qcmult_integral in E. tauto. Qed.

Lemma Qcpos_nz x : Qcpos x = true -> x <> 0.
Proof. intros Hp E. subst. discriminate. Qed.

Lemma get3_mul3 a u w : get3 a (mul3 u w) = get3 a u * get3 a w.
Proof. destruct a as [|[|a]]; reflexivity. Qed.

Lemma get33_from_model bias_sd noise bias_walk sm_sd zT zb o i :
  (o < 3)%nat -> (i < 3)%nat ->
  get33 o i (p_T (from_model bias_sd noise bias_walk sm_sd zT zb))
  = delta o i + get33 o i sm_sd * get33 o i zT.
Proof.
  intros Ho Hi. destruct o as [|[|[|o]]]; try lia; destruct i as [|[|[|i]]]; try lia; reflexivity.
Qed.

Lemma from_model_masks bias_sd noise bias_walk sm_sd zT zb :
  build bias_sd noise bias_walk sm_sd <> None ->
  nonneg3 bias_sd -> nonneg3 bias_walk -> nonneg33 sm_sd -> nonzero3 zb -> nonzero33 zT ->
  let p := from_model bias_sd noise bias_walk sm_sd zT zb in
  (forall a, (a < 3)%nat -> col_bias_en p a = Qcpos (get3 a bias_sd)) /\
  (forall o i, (o < 3)%nat -> (i < 3)%nat -> col_sm_en p (o, i) = Qcpos (get33 o i sm_sd)).
Proof.
  intros Hb Hnb Hnw Hns Hzb HzT p. split.
  - intros a Ha. unfold col_bias_en, p. cbn [from_model p_b p_walk]. rewrite get3_mul3.
    destruct (Qcpos (get3 a bias_sd)) eqn:Ep.
    + apply orb_true_iff. left. apply Qcnz_spec. apply Qcmult_nz; [now apply Qcpos_nz|now apply Hzb].
    + rewrite (Qcpos_false_nonneg _ (Hnb a Ha) Ep).
      assert (Hw : get3 a bias_walk = 0).
      { apply Qcpos_false_nonneg; [now apply Hnw|].
        destruct (Qcpos (get3 a bias_walk)) eqn:Ew; [|reflexivity]. exfalso. apply Hb.
        apply walk_requires_bias. exists a. split; [exact Ha|]. split; [now apply Qcpos_spec|].
        apply Qcnonpos_spec. rewrite Qcnonpos_negb, Ep. reflexivity. }
      rewrite Hw. apply orb_false_iff. split; apply not_true_iff_false; rewrite Qcnz_spec; intro X; apply X; ring.
  - intros o i Ho Hi. unfold col_sm_en. cbn [fst snd]. unfold p. rewrite get33_from_model by assumption.
    destruct (Qcpos (get33 o i sm_sd)) eqn:Ep.
    + unfold Qcneq. destruct (Qc_eq_dec _ _) as [E|_]; [|reflexivity]. exfalso.
      assert (X : get33 o i sm_sd * get33 o i zT = 0).
      { replace (get33 o i sm_sd * get33 o i zT)
          with (delta o i + get33 o i sm_sd * get33 o i zT - delta o i) by ring. rewrite E. ring. }
      revert X. apply Qcmult_nz; [now apply Qcpos_nz|now apply HzT].
    + rewrite (Qcpos_false_nonneg _ (Hns o i Ho Hi) Ep). apply Qcneq_spec. ring.
Qed.

(** [names_agree] for parameters generated from the model itself *)
Lemma names_agree_from_model bias_sd noise bias_walk sm_sd m zT zb :
  build bias_sd noise bias_walk sm_sd = Some m ->
  nonneg3 bias_sd -> nonneg3 bias_walk -> nonneg33 sm_sd -> nonzero3 zb -> nonzero33 zT ->
  let p := from_model bias_sd noise bias_walk sm_sd zT zb in
  columns p = states m /\
  df_row p = state_vector bias_sd sm_sd (p_b p) (msub (p_T p) ident3) /\
  bias_supported bias_sd (p_b p) /\ sm_supported sm_sd (msub (p_T p) ident3).
Proof.
  intros Hb Hnb Hnw Hns Hzb HzT p.
  assert (Hb' : build bias_sd noise bias_walk sm_sd <> None) by congruence.
  destruct (from_model_masks _ _ _ _ zT zb Hb' Hnb Hnw Hns Hzb HzT) as [H1 H2]. fold p in H1, H2.
  destruct (columns_states _ _ _ _ _ p Hb H1 H2) as [Hc Hd].
  split; [exact Hc|]. split; [exact Hd|]. split.
  - intros a Ha Ep. unfold p. cbn [from_model p_b]. rewrite get3_mul3.
    rewrite (Qcpos_false_nonneg _ (Hnb a Ha) Ep). ring.
  - intros o i Ho Hi Ep. rewrite msub_ident_get by assumption. unfold p.
    rewrite get33_from_model by assumption. rewrite (Qcpos_false_nonneg _ (Hns o i Ho Hi) Ep). ring.
Qed.

(* ------------------------------------------------------------------ *)
(** * The complete simulator: square roots, streams, variances *)

Lemma qsqrt_spec x s : qsqrt x = Some s -> s * s = x /\ 0 <= s.
Proof.
  unfold qsqrt. destruct x as [[n d] Hc]. cbn [this Qnum Qden].
  destruct ((0 <=? n)%Z && (Z.sqrt n * Z.sqrt n =? n)%Z
            && (Z.sqrt (Z.pos d) * Z.sqrt (Z.pos d) =? Z.pos d)%Z) eqn:E; [|discriminate].
  apply andb_prop in E. destruct E as [E E3]. apply andb_prop in E. destruct E as [E1 E2].
  apply Z.leb_le in E1. apply Z.eqb_eq in E2, E3. intro H. injection H as <-.
  set (rn := Z.sqrt n) in *. set (rd := Z.sqrt (Z.pos d)) in *.
  assert (Hrd : (0 < rd)%Z).
  { pose proof (Z.sqrt_nonneg (Z.pos d)) as Hnn. fold rd in Hnn.
    destruct (Z.eq_dec rd 0) as [E0|]; [rewrite E0 in E3; discriminate|lia]. }
  split.
  - apply Qc_is_canon. cbn [this Qcmult Q2Qc]. rewrite Qred_correct.
    rewrite !Qred_correct. unfold Qeq, Qmult. cbn [Qnum Qden].
    rewrite Pos2Z.inj_mul. change (Z.pos (Pos.sqrt d)) with rd. rewrite E2, E3. reflexivity.
  - unfold Qcle. cbn [this Q2Qc]. rewrite !Qred_correct. unfold Qle. cbn [Qnum Qden].
    pose proof (Z.sqrt_nonneg n). fold rn in H. lia.
Qed.

Lemma opt_all_Forall2 {A} (l : list (option A)) r :
  opt_all l = Some r -> Forall2 (fun o x => o = Some x) l r.
Proof.
  revert r. induction l as [|[x|] l IH]; intros r E; cbn in E.
  - injection E as <-. constructor.
  - destruct (opt_all l) as [r'|]; [|discriminate]. injection E as <-. constructor; auto.
  - discriminate.
Qed.

(** every element of [sqrt_raw ts] is the non-negative square root of the corresponding dt *)
Lemma sqrt_raw_spec ts sraw :
  sqrt_raw ts = Some sraw -> Forall2 (fun d s => s * s = d /\ 0 <= s) (dt_raw ts) sraw.
Proof.
  unfold sqrt_raw. intro E. apply opt_all_Forall2 in E.
  remember (dt_raw ts) as l eqn:El. clear El. revert sraw E.
  induction l as [|d l IH]; intros sraw E; inversion E; subst; constructor.
  - now apply qsqrt_spec.
  - now apply IH.
Qed.

(** with both random streams equal to zero the complete simulator is the noise-free one *)
Lemma sim_full_row_zero p ty dt s r :
  sim_full_row p ty dt s r (p_b p) zero3 = sim_row p ty dt r.
Proof.
  unfold sim_full_row, sim_row, bias_term.
  destruct ty, (mv3 (p_T p) r) as [x y z], (p_b p) as [b0 b1 b2], (p_noise p) as [n0 n1 n2];
    unfold add3, mul3, scale3, zero3; cbn [c0 c1 c2]; f_equal; ring.
Qed.

(** the noise sample enters output row k linearly with coefficient noise * dt**(-/+ 1/2) *)
Lemma sim_full_row_noise p ty dt s r bias n :
  sim_full_row p ty dt s r bias n
  = add3 (sim_full_row p ty dt s r bias zero3) (mul3 (scale3 (p_noise p) (noise_coef ty s)) n).
Proof.
  unfold sim_full_row.
  destruct (add3 (mv3 (p_T p) r) (bias_term ty dt bias)) as [x y z],
    (scale3 (p_noise p) (noise_coef ty s)) as [k0 k1 k2], n as [n0 n1 n2].
  unfold add3, mul3, zero3; cbn [c0 c1 c2]; f_equal; ring.
Qed.

(** the bias enters with gain 1 (rate) or dt (increment) *)
Lemma sim_full_row_bias p ty dt s r bias bias' n :
  sub3 (sim_full_row p ty dt s r bias' n) (sim_full_row p ty dt s r bias n)
  = bias_term ty dt (sub3 bias' bias).
Proof.
  unfold sim_full_row, bias_term.
  destruct ty, (mv3 (p_T p) r) as [x y z], bias as [b0 b1 b2], bias' as [b0' b1' b2'],
    (mul3 (scale3 (p_noise p) _) n) as [k0 k1 k2];
    unfold add3, sub3, scale3; cbn [c0 c1 c2]; f_equal; ring.
Qed.

Lemma cumsum3_step acc l k x y z :
  nth_error (cumsum3 acc l) k = Some x -> nth_error (cumsum3 acc l) (S k) = Some y ->
  nth_error l (S k) = Some z -> y = add3 x z.
Proof.
  revert acc k. induction l as [|a l IH]; intros acc k Hx Hy Hz; [destruct k; discriminate|].
  cbn [cumsum3] in *. destruct k as [|k].
  - cbn in Hx. injection Hx as <-. cbn [nth_error] in Hy, Hz.
    destruct l as [|a' l]; [discriminate|]. cbn in Hy, Hz. congruence.
  - cbn [nth_error] in Hx, Hy, Hz. now apply (IH _ _ Hx Hy Hz).
Qed.

Lemma cumsum3_length acc l : List.length (cumsum3 acc l) = List.length l.
Proof. revert acc. induction l as [|a l IH]; intro acc; cbn; [reflexivity|now rewrite IH]. Qed.

(** the simulated bias is the constant bias plus a random walk whose k-th increment is
    bias_walk * sqrt(dt_raw[k]) * W[k] *)
Lemma bias_series_step p sraw W k b0 b1 w s :
  nth_error (bias_series p sraw W) k = Some b0 ->
  nth_error (bias_series p sraw W) (S k) = Some b1 ->
  nth_error W (S k) = Some w -> nth_error sraw (S k) = Some s ->
  sub3 b1 b0 = mul3 (p_walk p) (scale3 w s).
Proof.
  unfold bias_series. rewrite !nth_error_map.
  destruct (nth_error (cumsum3 zero3 (walk_steps sraw W)) k) as [x|] eqn:Ex; [|discriminate].
  destruct (nth_error (cumsum3 zero3 (walk_steps sraw W)) (S k)) as [y|] eqn:Ey; [|discriminate].
  cbn [option_map]. intros E0 E1 Hw Hs. injection E0 as <-. injection E1 as <-.
  assert (Hz : nth_error (walk_steps sraw W) (S k) = Some (scale3 w s)).
  { unfold walk_steps. rewrite nth_error_map.
    assert (Hc : nth_error (combine W sraw) (S k) = Some (w, s)).
    { clear -Hw Hs. revert W sraw Hw Hs. generalize (S k) as j.
      induction j as [|j IH]; intros [|a W] [|c sraw] Hw Hs; try discriminate; cbn in *.
      - congruence.
      - now apply IH. }
    rewrite Hc. reflexivity. }
  rewrite (cumsum3_step _ _ _ _ _ _ Ex Ey Hz).
  destruct (p_b p) as [p0 p1 p2], (p_walk p) as [w0 w1 w2], x as [x0 x1 x2], (scale3 w s) as [z0 z1 z2].
  unfold sub3, add3, mul3. cbn [c0 c1 c2]. f_equal; ring.
Qed.

(** the first bias sample is the constant bias: dt_raw[0] = 0 *)
Lemma bias_series_first p ts sraw W b0 :
  sqrt_raw ts = Some sraw -> nth_error (bias_series p sraw W) 0 = Some b0 -> b0 = p_b p.
Proof.
  intros Hs Hb. apply sqrt_raw_spec in Hs. unfold dt_raw in Hs.
  destruct ts as [|t ts]; inversion Hs as [|d s l l' [Hss _] Hrest]; subst.
  - unfold bias_series, walk_steps in Hb. destruct W; discriminate.
  - assert (s = 0).
    { apply Qcmult_integral in Hss. tauto. }
    subst s. unfold bias_series, walk_steps in Hb. destruct W as [|w W]; [discriminate|].
    cbn in Hb. injection Hb as <-.
    destruct (p_b p) as [p0 p1 p2], (p_walk p) as [w0 w1 w2], w as [x0 x1 x2].
    unfold add3, mul3, scale3, zero3. cbn [c0 c1 c2]. f_equal; ring.
Qed.

(** [variances_agree], simulator side: squared coefficients of the unit-variance samples.
    [s] is the square root of the sampling interval [dt] (from [qsqrt]). *)
Lemma sim_variances (noise_a walk_a : Qc) dt s :
  s * s = dt -> dt <> 0 ->
  (* rate sensor: reading noise integrated over dt *)
  sq (noise_a * noise_coef Rate s * dt) = sq noise_a * dt /\
  (* increment sensor: noise of one increment *)
  sq (noise_a * noise_coef Increment s) = sq noise_a * dt /\
  (* the rate reading itself: PSD noise^2 sampled at 1/dt *)
  sq (noise_a * noise_coef Rate s) = sq noise_a / dt /\
  (* bias increment over dt *)
  sq (walk_a * s) = sq walk_a * dt.
Proof.
  intros Hs Hd. subst dt. assert (Hs : s <> 0) by (intro E; apply Hd; rewrite E; ring).
  unfold sq, noise_coef. repeat split; field; auto.
Qed.

(* ------------------------------------------------------------------ *)
(** * The covariance rates the estimator assumes: J v^2 J^T and G q^2 G^T *)

Lemma fold_sum_map_seq {A} (l : list A) (g : nat -> Qc) (f : A -> Qc) :
  (forall s t, nth_error l s = Some t -> g s = f t) ->
  fold_right Qcplus 0 (map g (seq 0 (List.length l))) = fold_right Qcplus 0 (map f l).
Proof. intro Hg. f_equal. apply map_seq_nth. intros s t. cbn. apply Hg. Qed.

Lemma gram_indexed {A} (L : list A) (h : A -> nat) (f : A -> Qc) r r' :
  gram (indexed 0 (map h L)) (map f L) r r'
  = fold_right Qcplus 0
      (map (fun x => ind (Nat.eqb (h x) r) * sq (f x) * ind (Nat.eqb (h x) r')) L).
Proof.
  unfold gram. rewrite map_length. apply fold_sum_map_seq. intros s t Hs.
  rewrite !has_entry_indexed, nth_error_map, Hs. cbn [option_map].
  rewrite (nth_error_nth (map f L) s 0 (x := f t)); [reflexivity|].
  rewrite nth_error_map, Hs. reflexivity.
Qed.

Lemma sum_zero {A} (L : list A) (g : A -> Qc) :
  (forall x, In x L -> g x = 0) -> fold_right Qcplus 0 (map g L) = 0.
Proof.
  induction L as [|x L IH]; intro Hz; [reflexivity|]. cbn [map fold_right].
  rewrite (Hz x (or_introl eq_refl)), IH; [ring|]. intros y Hy. apply Hz. now right.
Qed.

Lemma gram_sum_diag {A} (L : list A) (h : A -> nat) (f : A -> Qc) a :
  NoDup (map h L) -> In a L ->
  fold_right Qcplus 0 (map (fun x => ind (Nat.eqb (h x) (h a)) * sq (f x) * ind (Nat.eqb (h x) (h a))) L)
  = sq (f a).
Proof.
  induction L as [|x L IH]; intros Hnd Hin; [contradiction|].
  cbn [map] in Hnd. inversion Hnd as [|? ? Hnot Hnd']; subst. cbn [map fold_right].
  destruct Hin as [->|Hin].
  - rewrite Nat.eqb_refl. cbn [ind]. rewrite sum_zero; [ring|].
    intros y Hy. destruct (Nat.eqb (h y) (h a)) eqn:E; [|cbn; ring].
    apply Nat.eqb_eq in E. exfalso. apply Hnot. rewrite <- E. now apply in_map.
  - rewrite (IH Hnd' Hin).
    destruct (Nat.eqb (h x) (h a)) eqn:E; [|cbn; ring].
    apply Nat.eqb_eq in E. exfalso. apply Hnot. rewrite E. now apply in_map.
Qed.

Lemma gram_sum_off {A} (L : list A) (h : A -> nat) (f : A -> Qc) r r' :
  r <> r' ->
  fold_right Qcplus 0 (map (fun x => ind (Nat.eqb (h x) r) * sq (f x) * ind (Nat.eqb (h x) r')) L) = 0.
Proof.
  intro Hne. apply sum_zero. intros x _.
  destruct (Nat.eqb (h x) r) eqn:E1, (Nat.eqb (h x) r') eqn:E2; cbn; try ring.
  apply Nat.eqb_eq in E1, E2. congruence.
Qed.

Lemma gram_sum_out {A} (L : list A) (h : A -> nat) (f : A -> Qc) r r' :
  (forall x, In x L -> h x <> r) ->
  fold_right Qcplus 0 (map (fun x => ind (Nat.eqb (h x) r) * sq (f x) * ind (Nat.eqb (h x) r')) L) = 0.
Proof.
  intro Hout. apply sum_zero. intros x Hx.
  destruct (Nat.eqb (h x) r) eqn:E1; [|cbn; ring]. apply Nat.eqb_eq in E1. exfalso. exact (Hout x Hx E1).
Qed.

Lemma NoDup_map_inj_in {A B} (f : A -> B) l :
  (forall x y, In x l -> In y l -> f x = f y -> x = y) -> NoDup l -> NoDup (map f l).
Proof.
  intros Hinj Hnd. induction Hnd as [|x l Hx Hnd IH]; cbn; constructor.
  - intro Hin. apply in_map_iff in Hin. destruct Hin as (y & E & Hy).
    apply Hx. rewrite <- (Hinj y x); auto; [now right|now left].
  - apply IH. intros y z Hy Hz. apply Hinj; now right.
Qed.

Lemma enn_NoDup noise : NoDup (enn noise).
Proof. unfold enn. apply NoDup_filter, seq_NoDup. Qed.

Lemma enw_NoDup bias_sd bias_walk : NoDup (enw bias_sd bias_walk).
Proof. unfold enw, enb. apply NoDup_filter, NoDup_filter, seq_NoDup. Qed.

Lemma bias_rank_inj bias_sd a a' :
  In a (enb bias_sd) -> In a' (enb bias_sd) -> bias_rank bias_sd a = bias_rank bias_sd a' -> a = a'.
Proof.
  intros Ha Ha' E. apply bias_rank_nth in Ha, Ha'. rewrite E in Ha. congruence.
Qed.

(** J v^2 J^T = diag(noise_a^2 over the enabled axes) *)
Lemma JvJ_spec bias_sd noise bias_walk sm_sd m :
  build bias_sd noise bias_walk sm_sd = Some m ->
  (forall a, (a < 3)%nat -> 0 < get3 a noise -> JvJ m a a = sq (get3 a noise)) /\
  (forall a a', a <> a' -> JvJ m a a' = 0) /\
  (forall a a', ~ ((a < 3)%nat /\ 0 < get3 a noise) -> JvJ m a a' = 0).
Proof.
  intro Hb. destruct (build_spec _ _ _ _ _ Hb) as (_ & _ & _ & _ & _ & _ & Hv & _ & _ & HJ & _).
  rewrite <- (map_id (enn noise)) in HJ. unfold JvJ. rewrite HJ, Hv.
  repeat split.
  - intros a Ha Hn. rewrite gram_indexed.
    apply (gram_sum_diag (enn noise) (fun x => x) (fun a => get3 a noise) a).
    + rewrite map_id. apply enn_NoDup.
    + apply enn_In. tauto.
  - intros a a' Hne. rewrite gram_indexed. now apply gram_sum_off.
  - intros a a' Hna. rewrite gram_indexed. apply gram_sum_out.
    intros x Hx E. subst x. apply Hna. now apply enn_In.
Qed.

(** G q^2 G^T = walk_a^2 at the diagonal position of every walking bias state, 0 elsewhere *)
Lemma GqG_spec bias_sd noise bias_walk sm_sd m :
  build bias_sd noise bias_walk sm_sd = Some m ->
  (forall a, (a < 3)%nat -> 0 < get3 a bias_sd -> 0 < get3 a bias_walk ->
     nth_error (states m) (bias_rank bias_sd a) = Some (bias_name a) /\
     GqG m (bias_rank bias_sd a) (bias_rank bias_sd a) = sq (get3 a bias_walk)) /\
  (forall k k', k <> k' -> GqG m k k' = 0) /\
  (forall k k', (forall a, nth_error (states m) k = Some (bias_name a) -> ~ 0 < get3 a bias_walk) ->
     GqG m k k' = 0).
Proof.
  intro Hb. destruct (build_spec _ _ _ _ _ Hb) as (_ & _ & _ & _ & _ & Hq & _ & HG & _).
  unfold GqG. rewrite HG, Hq. repeat split.
  - apply (bias_state_position _ _ _ _ _ _ Hb). apply enb_In. tauto.
  - rewrite gram_indexed.
    apply (gram_sum_diag (enw bias_sd bias_walk) (bias_rank bias_sd) (fun a => get3 a bias_walk) a).
    + apply NoDup_map_inj_in; [|apply enw_NoDup].
      intros x y Hx Hy. apply bias_rank_inj; eapply enw_incl_enb; eauto.
    + apply enw_In. tauto.
  - intros k k' Hne. rewrite gram_indexed. now apply gram_sum_off.
  - intros k k' Hk. rewrite gram_indexed. apply gram_sum_out.
    intros x Hx E. apply (Hk x).
    + rewrite <- E. apply (bias_state_position _ _ _ _ _ _ Hb). eapply enw_incl_enb; eauto.
    + apply enw_In in Hx. tauto.
Qed.

(** [variances_agree]: what the simulator produces over one sampling interval [dt] has exactly
    the variance the estimator's noise model gives over [dt]:
      J v^2 J^T * dt  (white noise integrated over dt, both sensor types)
      G q^2 G^T * dt  (bias increment over dt). *)
Lemma variances_agree bias_sd noise bias_walk sm_sd m dt s a :
  build bias_sd noise bias_walk sm_sd = Some m ->
  nonneg3 noise -> nonneg3 bias_walk ->
  s * s = dt -> dt <> 0 -> (a < 3)%nat ->
  sq (get3 a noise * noise_coef Rate s * dt) = JvJ m a a * dt /\
  sq (get3 a noise * noise_coef Increment s) = JvJ m a a * dt /\
  (0 < get3 a bias_sd ->
   sq (get3 a bias_walk * s) = GqG m (bias_rank bias_sd a) (bias_rank bias_sd a) * dt).
Proof.
  intros Hb Hnn Hnw Hs Hd Ha.
  destruct (sim_variances (get3 a noise) (get3 a bias_walk) dt s Hs Hd) as (V1 & V2 & _ & V4).
  destruct (JvJ_spec _ _ _ _ _ Hb) as (J1 & _ & J3).
  destruct (GqG_spec _ _ _ _ _ Hb) as (G1 & _ & G3).
  rewrite V1, V2, V4.
  assert (EJ : JvJ m a a = sq (get3 a noise)).
  { destruct (Qcpos (get3 a noise)) eqn:Ep.
    - apply J1; [exact Ha|now apply Qcpos_spec].
    - rewrite (Qcpos_false_nonneg _ (Hnn a Ha) Ep). rewrite J3; [reflexivity|].
      intros [_ H0]. apply Qcpos_spec in H0. congruence. }
  rewrite EJ. repeat split. intro Hbs.
  destruct (Qcpos (get3 a bias_walk)) eqn:Ep.
  - apply Qcpos_spec in Ep. destruct (G1 a Ha Hbs Ep) as [_ ->]. reflexivity.
  - rewrite (Qcpos_false_nonneg _ (Hnw a Ha) Ep). rewrite G3; [reflexivity|].
    intros a' Hn H0.
    assert (Hin : In a (enb bias_sd)) by (apply enb_In; tauto).
    rewrite (bias_state_position _ _ _ _ _ _ Hb Hin) in Hn.
    assert (Hn' : bias_name a = bias_name a') by congruence. clear Hn. rename Hn' into Hn.
    assert (a = a').
    { assert (Hv : valid_target (TBias a)) by exact Ha.
      pose proof (name_of_bias (TBias a) a' Hv Hn) as E. congruence. }
    subst a'. apply Qcpos_spec in H0. congruence.
Qed.

Lemma add3_zero u : add3 u zero3 = u.
Proof. destruct u as [x y z]. unfold add3, zero3. cbn [c0 c1 c2]. f_equal; ring. Qed.

Lemma scale3_zero s : scale3 zero3 s = zero3.
Proof. unfold scale3, zero3. cbn [c0 c1 c2]. f_equal; ring. Qed.

Lemma cumsum3_zeros acc l :
  Forall (fun x => x = zero3) l -> cumsum3 acc l = map (fun _ => acc) l.
Proof.
  intro Hz. revert acc. induction Hz as [|x l -> Hz IH]; intro acc; [reflexivity|].
  cbn [cumsum3 map]. rewrite add3_zero, IH. reflexivity.
Qed.

Lemma bias_series_zero p sraw W :
  Forall (fun x => x = zero3) W -> List.length W = List.length sraw ->
  bias_series p sraw W = map (fun _ => p_b p) sraw.
Proof.
  intros Hz Hl. unfold bias_series.
  assert (Hw : Forall (fun x => x = zero3) (walk_steps sraw W)).
  { unfold walk_steps. apply Forall_forall. intros x Hx. apply in_map_iff in Hx.
    destruct Hx as ([w s] & <- & Hin). apply in_combine_l in Hin. rewrite Forall_forall in Hz.
    cbn [fst snd]. rewrite (Hz w Hin). apply scale3_zero. }
  rewrite (cumsum3_zeros _ _ Hw), map_map. unfold walk_steps. rewrite map_map.
  clear Hw Hz. revert sraw Hl. induction W as [|w W IH]; intros [|s sraw] Hl; try discriminate; [reflexivity|].
  cbn [combine map]. f_equal.
  - destruct (p_b p) as [x y z], (p_walk p) as [a b c]. unfold add3, mul3, zero3. cbn [c0 c1 c2]. f_equal; ring.
  - apply IH. cbn in Hl. lia.
Qed.

Lemma sim_rows_zero p ty dts : forall sus rs bs ns,
  Forall (fun b => b = p_b p) bs -> Forall (fun x => x = zero3) ns ->
  List.length sus = List.length dts -> List.length bs = List.length dts ->
  List.length ns = List.length dts ->
  sim_rows p ty dts sus rs bs ns = map (fun dr => sim_row p ty (fst dr) (snd dr)) (combine dts rs).
Proof.
  induction dts as [|dt dts IH]; intros sus rs bs ns Hb Hn L1 L2 L3; [reflexivity|].
  destruct sus as [|s sus]; [discriminate|]. destruct bs as [|b bs]; [discriminate|].
  destruct ns as [|n ns]; [discriminate|]. destruct rs as [|r rs]; [reflexivity|].
  inversion Hb as [|? ? -> Hb']; subst. inversion Hn as [|? ? -> Hn']; subst.
  cbn [sim_rows combine map fst snd]. rewrite sim_full_row_zero. f_equal.
  apply IH; auto; cbn in *; lia.
Qed.

Lemma Forall2_length' {A B} (R : A -> B -> Prop) l l' : Forall2 R l l' -> List.length l = List.length l'.
Proof. induction 1; cbn; lia. Qed.

Lemma first_from_second_length l : List.length (first_from_second l) = List.length l.
Proof. destruct l as [|a [|b r]]; reflexivity. Qed.

(** with both random streams identically zero, the complete simulator (the one tied to the code
    by the correspondence check) is the noise-free simulator used in [correct_undoes_apply] *)
Lemma sim_full_noise_free p ty ts rs W N :
  sqrt_raw ts <> None ->
  Forall (fun x => x = zero3) W -> Forall (fun x => x = zero3) N ->
  List.length W = List.length ts -> List.length N = List.length ts ->
  sim_full p ty ts rs W N = sim_apply p ty ts rs.
Proof.
  intros Hs HW HN LW LN. unfold sim_full, sim_apply.
  destruct (dt_used ts) as [dts|] eqn:Ed; [|reflexivity].
  destruct (sqrt_raw ts) as [sraw|] eqn:Es; [|contradiction]. f_equal.
  pose proof (dt_used_length _ _ Ed) as Ld.
  pose proof (Forall2_length' _ _ _ (sqrt_raw_spec _ _ Es)) as Lr. rewrite dt_raw_length in Lr.
  rewrite bias_series_zero by (auto; lia).
  apply sim_rows_zero; auto.
  - apply Forall_forall. intros b Hb. apply in_map_iff in Hb. now destruct Hb as (? & <- & _).
  - rewrite first_from_second_length. lia.
  - rewrite map_length. lia.
  - lia.
Qed.

(* ------------------------------------------------------------------ *)
(** * Histories with rejected updates *)

(** an update of the wrong length is rejected (ValueError); a rejected update changes nothing *)
Lemma update_rejected bias_sd noise bias_walk sm_sd m x st :
  build bias_sd noise bias_walk sm_sd = Some m ->
  (update m x st = None <-> List.length x <> n_states m) /\
  (List.length x <> n_states m -> update_or_keep m st x = st).
Proof.
  intro Hb. unfold update_or_keep. rewrite (update_spec _ _ _ _ _ _ _ Hb).
  destruct (Nat.eqb (List.length x) (n_states m)) eqn:E.
  - apply Nat.eqb_eq in E. split; [split; [discriminate|contradiction]|contradiction].
  - apply Nat.eqb_neq in E. split; [split; [intros _; exact E|reflexivity]|reflexivity].
Qed.

(** a history of calls, some of them rejected and caught, equals the history of the accepted
    calls alone *)
Lemma run_history_accepted bias_sd noise bias_walk sm_sd m xs st :
  build bias_sd noise bias_walk sm_sd = Some m ->
  updates m (accepted m xs) st = Some (run_history m xs st).
Proof.
  intro Hb. revert st. induction xs as [|x xs IH]; intro st; [reflexivity|].
  unfold run_history, accepted in *. cbn [fold_left filter]. unfold update_or_keep at 2.
  rewrite (update_spec _ _ _ _ _ _ _ Hb).
  destruct (Nat.eqb (List.length x) (n_states m)) eqn:E.
  - cbn [updates]. rewrite (update_spec _ _ _ _ _ _ _ Hb), E. apply IH.
  - apply IH.
Qed.

(** ... hence the estimates after any such history (from reset) are the sum of the accepted
    vectors, and equal ONE update with that sum *)
Lemma history_accumulates bias_sd noise bias_walk sm_sd m xs :
  build bias_sd noise bias_walk sm_sd = Some m ->
  get_estimates m (run_history m xs reset) = Some (vsum (n_states m) (accepted m xs)) /\
  update m (vsum (n_states m) (accepted m xs)) reset = Some (run_history m xs reset).
Proof.
  intro Hb. pose proof (run_history_accepted _ _ _ _ _ xs reset Hb) as Hu.
  split; [exact (get_after_update _ _ _ _ _ _ _ Hb Hu)|].
  unfold vsum. remember (accepted m xs) as ys eqn:Ey.
  assert (Hlen : Forall (fun x => List.length x = n_states m) ys).
  { subst ys. unfold accepted. apply Forall_forall. intros x Hx. apply filter_In in Hx.
    now apply Nat.eqb_eq. }
  clear Ey. remember (run_history m xs reset) as fin eqn:Ef. clear Ef xs.
  (* generalise: from any state reached by one update with g *)
  assert (Gen : forall ys g st fin', List.length g = n_states m ->
            Forall (fun x => List.length x = n_states m) ys ->
            update m g reset = Some st -> updates m ys st = Some fin' ->
            update m (fold_left vadd ys g) reset = Some fin').
  { clear ys Hlen Hu fin. induction ys as [|y ys IH]; intros g st fin' Hg Hf Hst Hrun.
    - cbn in *. congruence.
    - inversion Hf as [|? ? Hy Hf']; subst. cbn [updates] in Hrun. cbn [fold_left].
      destruct (update m y st) as [st1|] eqn:E1; [|discriminate].
      apply (IH (vadd g y) st1 fin'); auto.
      + rewrite vadd_length; lia.
      + exact (accumulate _ _ _ _ _ _ _ _ _ _ Hb Hst E1). }
  apply (Gen ys (repeat 0 (n_states m)) reset fin); auto.
  - apply repeat_length.
  - rewrite (update_spec _ _ _ _ _ _ _ Hb), repeat_length, Nat.eqb_refl. f_equal.
    destruct (targets_length _ _ _ _ _ Hb) as [Hl _]. rewrite <- Hl.
    clear. generalize (targets bias_sd sm_sd) as ts. intro ts. generalize reset as st.
    induction ts as [|t ts IH]; intro st; [reflexivity|].
    cbn [List.length repeat]. rewrite add_all_cons. rewrite IH.
    destruct t as [a|o i], st as [T b]; cbn [add_target e_T e_b]; f_equal.
    + rewrite <- (upd3_ext a (fun y => y) (fun y => y + 0)) by (intro; ring).
      destruct a as [|[|a]], b; reflexivity.
    + unfold upd33. rewrite <- (upd3_ext o (fun r => r) (upd3 i (fun y => y + 0))).
      * destruct o as [|[|o]], T; reflexivity.
      * intro r. rewrite <- (upd3_ext i (fun y => y) (fun y => y + 0)) by (intro; ring).
        destruct i as [|[|i]], r; reflexivity.
Qed.
