(** Proofs about Model/SensorModel.v (property C14).  All statements are generic in the
    parameter values (and hence in the 2^18 enable masks): the constructor loops are
    characterised by induction on the loop counter, everything else follows from the
    characterisation. *)
From Coq Require Import List String Ascii Arith Bool ZArith QArith Qcanon Lia Sorted.
From PV Require Import Model.SensorModel.
Import ListNotations.
Open Scope Qc_scope.

(* ------------------------------------------------------------------ *)
(** * Comparisons *)

Lemma Qcpos_spec x : Qcpos x = true <-> 0 < x.
Proof.
  unfold Qcpos. rewrite Qclt_alt. destruct (0 ?= x); split; congruence.
Qed.

Lemma Qcnonpos_spec x : Qcnonpos x = true <-> x <= 0.
Proof.
  unfold Qcnonpos. rewrite Qcle_alt. destruct (x ?= 0); split; congruence.
Qed.

Lemma Qcnonpos_negb x : Qcnonpos x = negb (Qcpos x).
Proof.
  destruct (Qcpos x) eqn:Hp; cbn.
  - apply Qcpos_spec in Hp. destruct (Qcnonpos x) eqn:Hn; [|reflexivity].
    apply Qcnonpos_spec in Hn. exfalso. exact (Qclt_not_le _ _ Hp Hn).
  - destruct (Qcnonpos x) eqn:Hn; [reflexivity|]. exfalso.
    destruct (Qclt_le_dec 0 x) as [Hl|Hl].
    + apply Qcpos_spec in Hl. congruence.
    + apply Qcnonpos_spec in Hl. congruence.
Qed.

Lemma Qcneq_spec x y : Qcneq x y = false <-> x = y.
Proof. unfold Qcneq. destruct (Qc_eq_dec x y); split; congruence. Qed.

(* ------------------------------------------------------------------ *)
(** * Lists paired with consecutive indices *)

Lemma indexed_nil {A} s : @indexed A s [] = [].
Proof. reflexivity. Qed.

Lemma indexed_cons {A} s (x : A) l : indexed s (x :: l) = (x, s) :: indexed (S s) l.
Proof. reflexivity. Qed.

Lemma indexed_app {A} (l1 l2 : list A) s :
  indexed s (l1 ++ l2) = indexed s l1 ++ indexed (s + List.length l1) l2.
Proof.
  revert s. induction l1 as [|x l1 IH]; intro s; cbn [app List.length].
  - rewrite Nat.add_0_r. reflexivity.
  - rewrite !indexed_cons, IH. cbn [app]. do 3 f_equal. lia.
Qed.

Lemma indexed_length {A} (l : list A) s : List.length (indexed s l) = List.length l.
Proof. unfold indexed. rewrite combine_length, seq_length. lia. Qed.

Lemma indexed_map_fst {A} (l : list A) s : map fst (indexed s l) = l.
Proof.
  revert s. induction l as [|x l IH]; intro s; [reflexivity|].
  rewrite indexed_cons. cbn. now rewrite IH.
Qed.

Lemma In_indexed {A} (l : list A) s x j :
  In (x, j) (indexed s l) <-> (s <= j /\ nth_error l (j - s) = Some x)%nat.
Proof.
  revert s. induction l as [|y l IH]; intro s.
  - cbn. split; [tauto|]. intros [_ H]. destruct (j - s)%nat; discriminate.
  - rewrite indexed_cons. cbn [In]. rewrite IH. split.
    + intros [E|[Hle Hn]].
      * inversion E; subst. split; [lia|]. now rewrite Nat.sub_diag.
      * split; [lia|]. replace (j - s)%nat with (S (j - S s)) by lia. exact Hn.
    + intros [Hle Hn]. destruct (Nat.eq_dec j s) as [->|Hne].
      * rewrite Nat.sub_diag in Hn. cbn in Hn. left. congruence.
      * right. split; [lia|]. replace (j - s)%nat with (S (j - S s)) in Hn by lia. exact Hn.
Qed.

(** looking an index up in an indexed list *)
Lemma find_indexed_out {A} (l : list A) s j (f : A * nat -> bool) :
  (forall e, f e = true -> snd e = j) ->
  (j < s \/ s + List.length l <= j)%nat ->
  find f (indexed s l) = None.
Proof.
  intros Hf. revert s. induction l as [|x l IH]; intros s Hj; [reflexivity|].
  rewrite indexed_cons. cbn [find]. destruct (f (x, s)) eqn:E.
  - apply Hf in E. cbn in E, Hj. lia.
  - apply IH. cbn in Hj. lia.
Qed.

Lemma find_indexed_in {A} (l : list A) s k d (f : A * nat -> bool) (p : A -> bool) :
  (forall e, f e = p (fst e) && Nat.eqb (snd e) (s + k)) ->
  (k < List.length l)%nat ->
  find f (indexed s l) = if p (nth k l d) then Some (nth k l d, (s + k)%nat) else None.
Proof.
  revert s k. induction l as [|x l IH]; intros s k Hf Hk; [cbn in Hk; lia|].
  rewrite indexed_cons. cbn [find]. rewrite Hf. cbn [fst snd].
  destruct k as [|k].
  - rewrite Nat.add_0_r, Nat.eqb_refl, andb_true_r. cbn [nth].
    destruct (p x); [reflexivity|].
    apply find_indexed_out with (j := s).
    + intros e He. rewrite Hf, Nat.add_0_r in He. apply andb_prop in He.
      now apply Nat.eqb_eq.
    + lia.
  - replace (Nat.eqb s (s + S k)) with false by (symmetry; apply Nat.eqb_neq; lia).
    rewrite andb_false_r. cbn [nth].
    replace (s + S k)%nat with (S s + k)%nat by lia.
    apply IH; [|cbn in Hk; lia].
    intro e. rewrite Hf. do 2 f_equal. lia.
Qed.

Lemma existsb_find {A} (f : A -> bool) l :
  existsb f l = match find f l with Some _ => true | None => false end.
Proof. induction l as [|x l IH]; [reflexivity|]. cbn. destruct (f x); [reflexivity|exact IH]. Qed.

(* ------------------------------------------------------------------ *)
(** * Generic facts about [filter] over [seq] *)

Lemma filter_seq_S (p : nat -> bool) n :
  filter p (seq 0 (S n)) = filter p (seq 0 n) ++ (if p n then [n] else []).
Proof. rewrite seq_S, filter_app. cbn. destruct (p n); reflexivity. Qed.

Lemma list_prod_app_l {A B} (l1 l2 : list A) (l' : list B) :
  list_prod (l1 ++ l2) l' = list_prod l1 l' ++ list_prod l2 l'.
Proof. induction l1 as [|x l1 IH]; [reflexivity|]. cbn. now rewrite IH, app_assoc. Qed.

(* ------------------------------------------------------------------ *)
(** * The constructor loops *)

Section Loops.
Variables (bias_sd noise bias_walk : V3 Qc) (sm_sd : M3).

Let ben (a : nat) := Qcpos (get3 a bias_sd).
Let wen (a : nat) := Qcpos (get3 a bias_walk).
Let enb_n (n : nat) := filter ben (seq 0 n).
Let enw_n (n : nat) := filter wen (enb_n n).
Let rank (a : nat) := List.length (enb_n a).

Lemma bias_loop_spec n :
  let a := bias_loop bias_sd bias_walk n in
  a_ns a = List.length (enb_n n) /\
  a_nn a = List.length (enw_n n) /\
  a_states a = map bias_name (enb_n n) /\
  a_P a = map (fun a => sq (get3 a bias_sd)) (enb_n n) /\
  a_G a = indexed 0 (map rank (enw_n n)) /\
  a_H a = indexed 0 (enb_n n) /\
  a_q a = map (fun a => get3 a bias_walk) (enw_n n).
Proof.
  induction n as [|n IH]; [cbn; repeat split; reflexivity|].
  cbn zeta in *. unfold bias_loop in *. cbn [for_range].
  set (a := for_range n (bias_step bias_sd bias_walk) _) in *.
  destruct IH as (Hns & Hnn & Hst & HP & HG & HH & Hq).
  unfold enw_n, enb_n in *. rewrite filter_seq_S, filter_app.
  unfold bias_step. fold (ben n). destruct (ben n) eqn:Eb.
  - cbn [filter]. fold (wen n). destruct (wen n) eqn:Ew; cbn [a_ns a_nn a_states a_P a_G a_H a_q].
    + rewrite !map_app, !app_length, !indexed_app, !map_length. cbn [map List.length].
      rewrite Hns, Hnn, Hst, HP, HG, HH, Hq. unfold indexed at 3 6. cbn.
      unfold rank, enb_n. repeat split; try reflexivity; lia.
    + rewrite !map_app, !app_length, !indexed_app, !app_nil_r. cbn [map List.length].
      rewrite Hns, Hnn, Hst, HP, HG, HH, Hq. unfold indexed at 3. cbn.
      repeat split; try reflexivity; lia.
  - cbn [filter]. rewrite !app_nil_r. repeat split; assumption.
Qed.

Let sen (oi : nat * nat) := Qcpos (get33 (fst oi) (snd oi) sm_sd).

Lemma sm_inner_spec o n b :
  let L := filter sen (map (fun y : nat => (o, y)) (seq 0 n)) in
  let b' := sm_inner sm_sd o n b in
  b_ns b' = (b_ns b + List.length L)%nat /\
  b_states b' = b_states b ++ map (fun oi => sm_name (fst oi) (snd oi)) L /\
  b_P b' = b_P b ++ map (fun oi => sq (get33 (fst oi) (snd oi) sm_sd)) L /\
  b_sm b' = b_sm b ++ indexed (b_ns b) L.
Proof.
  induction n as [|n IH].
  - cbn. rewrite Nat.add_0_r, !app_nil_r. repeat split; reflexivity.
  - cbn zeta in *. unfold sm_inner in *. cbn [for_range].
    set (b1 := for_range n (sm_step sm_sd o) b) in *.
    destruct IH as (Hns & Hst & HP & Hsm).
    rewrite seq_S, map_app, filter_app. cbn [map filter plus].
    unfold sm_step. change (Qcpos (get33 o n sm_sd)) with (sen (o, n)).
    destruct (sen (o, n)) eqn:Es.
    + cbn [b_ns b_states b_P b_sm].
      rewrite !map_app, !app_length, !indexed_app, Hns, Hst, HP, Hsm, !app_assoc.
      cbn. repeat split; try reflexivity; lia.
    + rewrite !app_nil_r. repeat split; assumption.
Qed.

Lemma sm_loop_spec n b :
  let L := filter sen (list_prod (seq 0 n) (seq 0 3)) in
  let b' := sm_loop sm_sd n b in
  b_ns b' = (b_ns b + List.length L)%nat /\
  b_states b' = b_states b ++ map (fun oi => sm_name (fst oi) (snd oi)) L /\
  b_P b' = b_P b ++ map (fun oi => sq (get33 (fst oi) (snd oi) sm_sd)) L /\
  b_sm b' = b_sm b ++ indexed (b_ns b) L.
Proof.
  induction n as [|n IH].
  - cbn. rewrite Nat.add_0_r, !app_nil_r. repeat split; reflexivity.
  - cbn zeta in *. unfold sm_loop in *. cbn [for_range].
    set (b1 := for_range n _ b) in *.
    destruct IH as (Hns & Hst & HP & Hsm).
    destruct (sm_inner_spec n 3 b1) as (Hns' & Hst' & HP' & Hsm').
    rewrite seq_S, list_prod_app_l, filter_app. cbn [plus list_prod]. rewrite app_nil_r.
    rewrite Hns', Hst', HP', Hsm', Hns, Hst, HP, Hsm.
    rewrite !map_app, !app_length, !indexed_app, !app_assoc.
    repeat split; try reflexivity; lia.
Qed.

Let nen (a : nat) := Qcpos (get3 a noise).

Lemma noise_loop_spec n :
  let c := noise_loop noise n in
  let L := filter nen (seq 0 n) in
  c_n c = List.length L /\ c_J c = indexed 0 L /\ c_v c = map (fun a => get3 a noise) L.
Proof.
  induction n as [|n IH]; [cbn; repeat split; reflexivity|].
  cbn zeta in *. unfold noise_loop in *. cbn [for_range].
  set (c := for_range n (noise_step noise) _) in *.
  destruct IH as (Hn & HJ & Hv).
  rewrite filter_seq_S. unfold noise_step. fold (nen n). destruct (nen n) eqn:En.
  - cbn [c_n c_J c_v]. rewrite !map_app, !app_length, !indexed_app, Hn, HJ, Hv.
    cbn. repeat split; try reflexivity; lia.
  - rewrite !app_nil_r. repeat split; assumption.
Qed.

End Loops.

(* ------------------------------------------------------------------ *)
(** * Characterisation of the constructor *)

Definition sd_sq (bias_sd : V3 Qc) (sm_sd : M3) (t : target) : Qc :=
  match t with TBias a => sq (get3 a bias_sd) | TSm o i => sq (get33 o i sm_sd) end.

Lemma build_spec bias_sd noise bias_walk sm_sd m :
  build bias_sd noise bias_walk sm_sd = Some m ->
  states m = map bias_name (enb bias_sd)
             ++ map (fun oi => sm_name (fst oi) (snd oi)) (ensm sm_sd) /\
  n_states m = (List.length (enb bias_sd) + List.length (ensm sm_sd))%nat /\
  n_noises m = List.length (enw bias_sd bias_walk) /\
  n_output_noises m = List.length (enn noise) /\
  P m = map (fun a => sq (get3 a bias_sd)) (enb bias_sd)
        ++ map (fun oi => sq (get33 (fst oi) (snd oi) sm_sd)) (ensm sm_sd) /\
  q m = map (fun a => get3 a bias_walk) (enw bias_sd bias_walk) /\
  v m = map (fun a => get3 a noise) (enn noise) /\
  G m = indexed 0 (map (bias_rank bias_sd) (enw bias_sd bias_walk)) /\
  H m = indexed 0 (enb bias_sd) /\
  J m = indexed 0 (enn noise) /\
  scale_misal_data m = indexed (List.length (enb bias_sd)) (ensm sm_sd).
Proof.
  unfold build. destruct (walk_without_bias bias_sd bias_walk); [discriminate|].
  intro E. injection E as <-. cbn [states n_states n_noises n_output_noises P q v G H J scale_misal_data].
  destruct (bias_loop_spec bias_sd bias_walk 3) as (Hns & Hnn & Hst & HP & HG & HH & Hq).
  destruct (noise_loop_spec noise 3) as (Hn & HJ & Hv).
  destruct (sm_loop_spec sm_sd 3
             (mk_acc2 (a_ns (bias_loop bias_sd bias_walk 3)) (a_states (bias_loop bias_sd bias_walk 3))
                      (a_P (bias_loop bias_sd bias_walk 3)) [])) as (Hns' & Hst' & HP' & Hsm').
  cbn [b_ns b_states b_P b_sm] in *.
  rewrite Hns', Hst', HP', Hsm', Hns, Hnn, Hst, HP, HG, HH, Hq, Hn, HJ, Hv.
  repeat split; reflexivity.
Qed.

(** [walk_requires_bias]: the constructor raises exactly in the documented case. *)
Lemma walk_requires_bias bias_sd noise bias_walk sm_sd :
  build bias_sd noise bias_walk sm_sd = None <->
  exists a, (a < 3)%nat /\ 0 < get3 a bias_walk /\ get3 a bias_sd <= 0.
Proof.
  unfold build. destruct (walk_without_bias bias_sd bias_walk) eqn:E.
  - split; [intros _|reflexivity].
    unfold walk_without_bias in E. apply existsb_exists in E. destruct E as (a & Hin & Ha).
    apply in_seq in Hin. apply andb_prop in Ha. destruct Ha as [H1 H2].
    exists a. split; [lia|]. split; [now apply Qcpos_spec|now apply Qcnonpos_spec].
  - split; [discriminate|]. intros (a & Ha & Hw & Hb). exfalso.
    assert (X : walk_without_bias bias_sd bias_walk = true); [|congruence].
    apply existsb_exists. exists a. split; [apply in_seq; lia|].
    apply andb_true_intro. split; [now apply Qcnonpos_spec|now apply Qcpos_spec].
Qed.

(* ------------------------------------------------------------------ *)
(** * Names: decoding inverts construction *)

Lemma decode_name_of t : valid_target t -> decode (name_of t) = DTarget t.
Proof.
  destruct t as [a|o i]; cbn [valid_target name_of].
  - intro Ha. destruct a as [|[|[|a]]]; try lia; reflexivity.
  - intros [Ho Hi]. destruct o as [|[|[|o]]]; try lia; destruct i as [|[|[|i]]]; try lia; reflexivity.
Qed.

Lemma decode_bias_name a : decode (bias_name a) = if (a <? 3)%nat then DTarget (TBias a) else DError.
Proof. destruct a as [|[|[|a]]]; reflexivity. Qed.

Lemma decode_sm_name o i :
  decode (sm_name o i) = if ((o <? 3) && (i <? 3))%nat then DTarget (TSm o i) else DError.
Proof. destruct o as [|[|[|o]]]; destruct i as [|[|[|i]]]; reflexivity. Qed.

Lemma decode_range name t : decode name = DTarget t -> valid_target t.
Proof.
  unfold decode. destruct (split_us name) as [|k rest]; [discriminate|].
  destruct (String.eqb k "bias").
  - destruct rest as [|it rest]; [discriminate|].
    unfold xyz_to_index.
    destruct (String.eqb it "x"); [intro E; injection E as <-; cbn; lia|].
    destruct (String.eqb it "y"); [intro E; injection E as <-; cbn; lia|].
    destruct (String.eqb it "z"); [intro E; injection E as <-; cbn; lia|discriminate].
  - destruct (String.eqb k "sm"); [|discriminate].
    destruct rest as [|[|a [|b r]] rest]; try discriminate.
    unfold xyz_to_index.
    destruct (String.eqb (String a "") "x"), (String.eqb (String a "") "y"),
      (String.eqb (String a "") "z"), (String.eqb (String b "") "x"),
      (String.eqb (String b "") "y"), (String.eqb (String b "") "z");
      try discriminate; intro E; injection E as <-; cbn; lia.
Qed.

Lemma enb_range bias_sd a : In a (enb bias_sd) -> (a < 3)%nat /\ 0 < get3 a bias_sd.
Proof.
  unfold enb. rewrite filter_In, in_seq. intros [H1 H2]. split; [lia|now apply Qcpos_spec].
Qed.

Lemma in_pairs9 o i : In (o, i) pairs9 <-> (o < 3 /\ i < 3)%nat.
Proof. unfold pairs9. rewrite in_prod_iff, !in_seq. lia. Qed.

Lemma ensm_range sm_sd o i :
  In (o, i) (ensm sm_sd) -> (o < 3 /\ i < 3)%nat /\ 0 < get33 o i sm_sd.
Proof.
  unfold ensm. rewrite filter_In, in_pairs9. cbn [fst snd]. intros [H1 H2].
  split; [lia|now apply Qcpos_spec].
Qed.

Lemma targets_valid bias_sd sm_sd : Forall valid_target (targets bias_sd sm_sd).
Proof.
  unfold targets. apply Forall_app. split; apply Forall_forall; intros t Ht;
    apply in_map_iff in Ht; destruct Ht as (x & <- & Hx).
  - apply enb_range in Hx. cbn. tauto.
  - destruct x as [o i]. apply ensm_range in Hx. cbn. tauto.
Qed.

Lemma states_targets bias_sd noise bias_walk sm_sd m :
  build bias_sd noise bias_walk sm_sd = Some m ->
  states m = map name_of (targets bias_sd sm_sd).
Proof.
  intro Hb. apply build_spec in Hb. destruct Hb as (Hst & _).
  rewrite Hst. unfold targets. rewrite map_app, !map_map. reflexivity.
Qed.

Lemma map_decode_targets ts :
  Forall valid_target ts -> map decode (map name_of ts) = map DTarget ts.
Proof.
  intro Hv. rewrite map_map. apply map_ext_in. intros t Ht.
  apply decode_name_of. rewrite Forall_forall in Hv. now apply Hv.
Qed.

(* ------------------------------------------------------------------ *)
(** * Order and distinctness of the states *)

Definition all_targets : list target :=
  map TBias (seq 0 3) ++ map (fun oi => TSm (fst oi) (snd oi)) pairs9.
Definition target_en (bias_sd : V3 Qc) (sm_sd : M3) (t : target) : bool :=
  match t with TBias a => Qcpos (get3 a bias_sd) | TSm o i => Qcpos (get33 o i sm_sd) end.

Lemma filter_map_comm {A B} (f : A -> B) (p : B -> bool) l :
  filter p (map f l) = map f (filter (fun x => p (f x)) l).
Proof. induction l as [|x l IH]; [reflexivity|]. cbn. destruct (p (f x)); cbn; now rewrite IH. Qed.

Lemma targets_filter bias_sd sm_sd :
  targets bias_sd sm_sd = filter (target_en bias_sd sm_sd) all_targets.
Proof.
  unfold targets, all_targets. rewrite filter_app, !filter_map_comm. reflexivity.
Qed.

Lemma sorted_map_filter {A} (f : A -> nat) (p : A -> bool) l :
  StronglySorted lt (map f l) -> StronglySorted lt (map f (filter p l)).
Proof.
  induction l as [|x l IH]; cbn; intro Hs; [constructor|].
  inversion Hs as [|? ? Hs' Hall]; subst. destruct (p x); cbn; [|now apply IH].
  constructor; [now apply IH|].
  rewrite Forall_forall in *. intros y Hy. apply Hall.
  apply in_map_iff in Hy. destruct Hy as (z & <- & Hz). apply filter_In in Hz.
  apply in_map. tauto.
Qed.

Lemma all_targets_sorted : StronglySorted lt (map key all_targets).
Proof. vm_compute. repeat (constructor; [|repeat constructor]). constructor. Qed.

Lemma targets_sorted bias_sd sm_sd : StronglySorted lt (map key (targets bias_sd sm_sd)).
Proof. rewrite targets_filter. apply sorted_map_filter, all_targets_sorted. Qed.

Lemma sorted_lt_NoDup l : StronglySorted lt l -> NoDup l.
Proof.
  induction 1 as [|x l Hs IH Hall]; constructor; [|exact IH].
  intro Hin. rewrite Forall_forall in Hall. specialize (Hall _ Hin). lia.
Qed.

Lemma targets_NoDup bias_sd sm_sd : NoDup (targets bias_sd sm_sd).
Proof. eapply NoDup_map_inv, sorted_lt_NoDup, targets_sorted. Qed.

Lemma NoDup_map_inj {A B} (f : A -> B) l :
  (forall x y, f x = f y -> x = y) -> NoDup l -> NoDup (map f l).
Proof.
  intros Hinj. induction 1 as [|x l Hx Hnd IH]; cbn; constructor; [|exact IH].
  intro Hin. apply in_map_iff in Hin. destruct Hin as (y & E & Hy). apply Hinj in E. congruence.
Qed.

Lemma states_NoDup bias_sd noise bias_walk sm_sd m :
  build bias_sd noise bias_walk sm_sd = Some m -> NoDup (states m).
Proof.
  intro Hb. rewrite (states_targets _ _ _ _ _ Hb).
  apply NoDup_map_inv with (f := decode).
  rewrite map_decode_targets by apply targets_valid.
  apply NoDup_map_inj; [intros x y E; congruence|apply targets_NoDup].
Qed.

(* ------------------------------------------------------------------ *)
(** * Positions: names, H and _scale_misal_data agree about every state *)

Lemma name_of_bias t a : valid_target t -> name_of t = bias_name a -> t = TBias a.
Proof.
  intros Hv E. apply decode_name_of in Hv. rewrite E, decode_bias_name in Hv.
  destruct (a <? 3)%nat; congruence.
Qed.

Lemma name_of_sm t o i : valid_target t -> name_of t = sm_name o i -> t = TSm o i.
Proof.
  intros Hv E. apply decode_name_of in Hv. rewrite E, decode_sm_name in Hv.
  destruct ((o <? 3) && (i <? 3))%nat; congruence.
Qed.

Lemma nth_error_targets bias_sd sm_sd k :
  nth_error (targets bias_sd sm_sd) k =
  if (k <? List.length (enb bias_sd))%nat then option_map TBias (nth_error (enb bias_sd) k)
  else option_map (fun oi => TSm (fst oi) (snd oi))
                  (nth_error (ensm sm_sd) (k - List.length (enb bias_sd))).
Proof.
  unfold targets. destruct (k <? List.length (enb bias_sd))%nat eqn:E.
  - apply Nat.ltb_lt in E. rewrite nth_error_app1 by (now rewrite map_length).
    apply nth_error_map.
  - apply Nat.ltb_ge in E. rewrite nth_error_app2 by (now rewrite map_length).
    rewrite map_length. apply nth_error_map.
Qed.

Lemma nth_error_states bias_sd noise bias_walk sm_sd m k :
  build bias_sd noise bias_walk sm_sd = Some m ->
  nth_error (states m) k = option_map name_of (nth_error (targets bias_sd sm_sd) k).
Proof. intro Hb. rewrite (states_targets _ _ _ _ _ Hb). apply nth_error_map. Qed.

Lemma nth_error_valid bias_sd sm_sd k t :
  nth_error (targets bias_sd sm_sd) k = Some t -> valid_target t.
Proof.
  intro H. apply nth_error_In in H. pose proof (targets_valid bias_sd sm_sd) as Hv.
  rewrite Forall_forall in Hv. now apply Hv.
Qed.

Lemma H_positions bias_sd noise bias_walk sm_sd m a s :
  build bias_sd noise bias_walk sm_sd = Some m ->
  In (a, s) (H m) <-> nth_error (states m) s = Some (bias_name a).
Proof.
  intro Hb. rewrite (nth_error_states _ _ _ _ _ s Hb).
  destruct (build_spec _ _ _ _ _ Hb) as (_ & _ & _ & _ & _ & _ & _ & _ & HH & _).
  rewrite HH, In_indexed, Nat.sub_0_r, nth_error_targets. split.
  - intros [_ Hn]. assert (Hlt : (s < List.length (enb bias_sd))%nat)
      by (apply nth_error_Some; congruence).
    apply Nat.ltb_lt in Hlt. rewrite Hlt, Hn. reflexivity.
  - intro Hn. split; [lia|].
    destruct (nth_error (targets bias_sd sm_sd) s) as [t|] eqn:Et.
    + pose proof (nth_error_valid _ _ _ _ Et) as Hv. rewrite nth_error_targets in Et.
      rewrite Et in Hn. cbn in Hn. injection Hn as Hn. apply (name_of_bias _ _ Hv) in Hn. subst t.
      destruct (s <? List.length (enb bias_sd))%nat.
      * destruct (nth_error (enb bias_sd) s); cbn in Et; congruence.
      * destruct (nth_error (ensm sm_sd) _); cbn in Et; congruence.
    + rewrite nth_error_targets in Et. rewrite Et in Hn. discriminate.
Qed.

Lemma sm_positions bias_sd noise bias_walk sm_sd m o i s :
  build bias_sd noise bias_walk sm_sd = Some m ->
  In (o, i, s) (scale_misal_data m) <-> nth_error (states m) s = Some (sm_name o i).
Proof.
  intro Hb. rewrite (nth_error_states _ _ _ _ _ s Hb).
  destruct (build_spec _ _ _ _ _ Hb) as (_ & _ & _ & _ & _ & _ & _ & _ & _ & _ & Hsm).
  rewrite Hsm, In_indexed, nth_error_targets. split.
  - intros [Hle Hn]. apply Nat.ltb_ge in Hle. rewrite Hle, Hn. reflexivity.
  - intro Hn.
    destruct (nth_error (targets bias_sd sm_sd) s) as [t|] eqn:Et.
    + pose proof (nth_error_valid _ _ _ _ Et) as Hv. rewrite nth_error_targets in Et.
      rewrite Et in Hn. cbn in Hn. injection Hn as Hn. apply (name_of_sm _ _ _ Hv) in Hn. subst t.
      destruct (s <? List.length (enb bias_sd))%nat eqn:El.
      * destruct (nth_error (enb bias_sd) s); cbn in Et; congruence.
      * apply Nat.ltb_ge in El. split; [exact El|].
        destruct (nth_error (ensm sm_sd) _) as [[o' i']|]; cbn in Et; congruence.
    + rewrite nth_error_targets in Et. rewrite Et in Hn. discriminate.
Qed.

Lemma created_for_spec bias_sd noise bias_walk sm_sd m k :
  build bias_sd noise bias_walk sm_sd = Some m ->
  created_for m k = nth_error (targets bias_sd sm_sd) k.
Proof.
  intro Hb.
  destruct (build_spec _ _ _ _ _ Hb) as (_ & _ & _ & _ & _ & _ & _ & _ & HH & _ & Hsm).
  unfold created_for. rewrite HH, Hsm, nth_error_targets.
  destruct (k <? List.length (enb bias_sd))%nat eqn:El.
  - apply Nat.ltb_lt in El.
    rewrite (find_indexed_in (enb bias_sd) 0 k 0%nat _ (fun _ => true)); [|reflexivity|exact El].
    rewrite (nth_error_nth' _ 0%nat El). reflexivity.
  - apply Nat.ltb_ge in El.
    rewrite (find_indexed_out (enb bias_sd) 0 k);
      [|intros e He; now apply Nat.eqb_eq in He|right; lia].
    destruct (Nat.lt_ge_cases (k - List.length (enb bias_sd)) (List.length (ensm sm_sd))) as [Hl|Hl].
    + rewrite (find_indexed_in (ensm sm_sd) _ (k - List.length (enb bias_sd)) (0%nat, 0%nat) _ (fun _ => true));
        [|intro e; cbn beta; rewrite andb_true_l; f_equal; lia|exact Hl].
      rewrite (nth_error_nth' _ (0%nat, 0%nat) Hl). reflexivity.
    + rewrite (find_indexed_out (ensm sm_sd) _ k);
        [|intros e He; now apply Nat.eqb_eq in He|right; lia].
      apply nth_error_None in Hl. rewrite Hl. reflexivity.
Qed.

(** [update_decodes_layout]: for every state index, decoding the state's NAME yields exactly
    the bias axis / matrix entry which the constructor's matrices ([H], [_scale_misal_data])
    attach to that index; and every index below [n_states] has such a meaning. *)
Lemma update_decodes_layout bias_sd noise bias_walk sm_sd m :
  build bias_sd noise bias_walk sm_sd = Some m ->
  forall k, (k < n_states m)%nat ->
  exists t name, created_for m k = Some t /\ valid_target t /\
                 nth_error (states m) k = Some name /\ decode name = DTarget t.
Proof.
  intros Hb k Hk. rewrite (created_for_spec _ _ _ _ _ k Hb).
  destruct (build_spec _ _ _ _ _ Hb) as (_ & Hns & _).
  assert (Hlen : List.length (targets bias_sd sm_sd) = n_states m).
  { unfold targets. rewrite app_length, !map_length. lia. }
  destruct (nth_error (targets bias_sd sm_sd) k) as [t|] eqn:Et.
  - exists t, (name_of t). pose proof (nth_error_valid _ _ _ _ Et) as Hv.
    repeat split; [exact Hv| |now apply decode_name_of].
    rewrite (nth_error_states _ _ _ _ _ k Hb), Et. reflexivity.
  - apply nth_error_None in Et. lia.
Qed.

Lemma update_loop_targets ts x st :
  Forall valid_target ts -> update_loop (map name_of ts) x st = Some (add_all ts x st).
Proof.
  intro Hv. revert x st. induction Hv as [|t ts Ht Hv IH]; intros x st; [reflexivity|].
  destruct x as [|xi xs]; [reflexivity|]. cbn [map update_loop].
  rewrite (decode_name_of _ Ht). unfold add_all. cbn [combine fold_left fst snd]. apply IH.
Qed.

Lemma get_loop_targets ts st :
  Forall valid_target ts ->
  get_loop (map name_of ts) st = Some (map (fun t => read_target t st) ts).
Proof.
  induction 1 as [|t ts Ht Hv IH]; [reflexivity|]. cbn [map get_loop].
  rewrite (decode_name_of _ Ht), IH. reflexivity.
Qed.

Lemma targets_length bias_sd noise bias_walk sm_sd m :
  build bias_sd noise bias_walk sm_sd = Some m ->
  List.length (targets bias_sd sm_sd) = n_states m /\ List.length (states m) = n_states m.
Proof.
  intro Hb. destruct (build_spec _ _ _ _ _ Hb) as (Hst & Hns & _).
  rewrite Hst. unfold targets. rewrite !app_length, !map_length. lia.
Qed.

(** [update] adds [x[k]] to the target state [k] was created for, for every state, and fails
    exactly on a length mismatch. *)
Lemma update_spec bias_sd noise bias_walk sm_sd m x st :
  build bias_sd noise bias_walk sm_sd = Some m ->
  update m x st = if Nat.eqb (List.length x) (n_states m)
                  then Some (add_all (targets bias_sd sm_sd) x st) else None.
Proof.
  intro Hb. unfold update. destruct (targets_length _ _ _ _ _ Hb) as [_ Hl]. rewrite Hl.
  destruct (Nat.eqb (List.length x) (n_states m)); [|reflexivity].
  rewrite (states_targets _ _ _ _ _ Hb). apply update_loop_targets, targets_valid.
Qed.

Lemma get_estimates_spec bias_sd noise bias_walk sm_sd m st :
  build bias_sd noise bias_walk sm_sd = Some m ->
  get_estimates m st = Some (map (fun t => read_target t st) (targets bias_sd sm_sd)).
Proof.
  intro Hb. unfold get_estimates. rewrite (states_targets _ _ _ _ _ Hb).
  apply get_loop_targets, targets_valid.
Qed.

(* ------------------------------------------------------------------ *)
(** * Algebra of the estimate state machine *)

Lemma get3_upd3_same {A} i (f : A -> A) v : get3 i (upd3 i f v) = f (get3 i v).
Proof. destruct i as [|[|i]]; reflexivity. Qed.

Lemma get3_upd3_other {A} i j (f : A -> A) v :
  (i < 3)%nat -> (j < 3)%nat -> i <> j -> get3 i (upd3 j f v) = get3 i v.
Proof. intros Hi Hj Hne. destruct i as [|[|[|i]]], j as [|[|[|j]]]; try lia; reflexivity. Qed.

Lemma upd3_comm {A} i j (f g : A -> A) v :
  (forall x, f (g x) = g (f x)) -> upd3 i f (upd3 j g v) = upd3 j g (upd3 i f v).
Proof.
  intro Hc. destruct v as [a b c]. destruct i as [|[|i]], j as [|[|j]]; cbn; rewrite ?Hc; reflexivity.
Qed.

Lemma upd3_upd3 {A} i (f g : A -> A) v : upd3 i g (upd3 i f v) = upd3 i (fun x => g (f x)) v.
Proof. destruct i as [|[|i]]; reflexivity. Qed.

Lemma upd3_ext {A} i (f g : A -> A) v : (forall x, f x = g x) -> upd3 i f v = upd3 i g v.
Proof. intro He. destruct i as [|[|i]]; cbn; rewrite He; reflexivity. Qed.

Lemma add_target_comm t t' a b st :
  add_target t a (add_target t' b st) = add_target t' b (add_target t a st).
Proof.
  destruct t as [i|o i], t' as [i'|o' i']; cbn; try reflexivity; f_equal.
  - apply upd3_comm. intro x. ring.
  - unfold upd33. apply upd3_comm. intro r. apply upd3_comm. intro x. ring.
Qed.

Lemma add_target_add t a b st : add_target t b (add_target t a st) = add_target t (a + b) st.
Proof.
  destruct t as [i|o i]; cbn; f_equal.
  - rewrite upd3_upd3. apply upd3_ext. intro x. ring.
  - unfold upd33. rewrite upd3_upd3. apply upd3_ext. intro r.
    rewrite upd3_upd3. apply upd3_ext. intro x. ring.
Qed.

Lemma read_add_same t xi st :
  read_target t (add_target t xi st) = read_target t st + xi.
Proof.
  destruct t as [a|o i]; cbn.
  - rewrite get3_upd3_same. reflexivity.
  - unfold get33, upd33. rewrite !get3_upd3_same. ring.
Qed.

Lemma read_add_other t t' xi st :
  valid_target t -> valid_target t' -> t <> t' ->
  read_target t (add_target t' xi st) = read_target t st.
Proof.
  destruct t as [a|o i], t' as [a'|o' i']; cbn; intros Hv Hv' Hne; try reflexivity.
  - apply get3_upd3_other; try lia. congruence.
  - f_equal. unfold get33, upd33. destruct Hv as [Ho Hi], Hv' as [Ho' Hi'].
    destruct (Nat.eq_dec o o') as [->|Hoo].
    + rewrite get3_upd3_same. apply get3_upd3_other; try lia. congruence.
    + rewrite get3_upd3_other by lia. reflexivity.
Qed.

Lemma add_all_cons t ts xi xs st :
  add_all (t :: ts) (xi :: xs) st = add_all ts xs (add_target t xi st).
Proof. reflexivity. Qed.

Lemma add_target_add_all t a ts xs st :
  add_target t a (add_all ts xs st) = add_all ts xs (add_target t a st).
Proof.
  revert xs st. induction ts as [|t' ts IH]; intros xs st; [reflexivity|].
  destruct xs as [|xi xs]; [reflexivity|]. rewrite !add_all_cons, IH, add_target_comm. reflexivity.
Qed.

(** [accumulate]: two updates equal one update with the sum. *)
Lemma add_all_accumulate ts x1 x2 st :
  List.length x1 = List.length ts -> List.length x2 = List.length ts ->
  add_all ts x2 (add_all ts x1 st) = add_all ts (vadd x1 x2) st.
Proof.
  revert x1 x2 st. induction ts as [|t ts IH]; intros x1 x2 st H1 H2.
  - destruct x1, x2; reflexivity.
  - destruct x1 as [|a x1]; [discriminate|]. destruct x2 as [|b x2]; [discriminate|].
    unfold vadd. cbn [combine map fst snd]. rewrite !add_all_cons.
    rewrite add_target_add_all, add_target_add. apply IH; cbn in *; lia.
Qed.

Lemma vadd_length x y : List.length x = List.length y -> List.length (vadd x y) = List.length x.
Proof. intro H. unfold vadd. rewrite map_length, combine_length. lia. Qed.

Lemma accumulate bias_sd noise bias_walk sm_sd m x1 x2 st st1 st2 :
  build bias_sd noise bias_walk sm_sd = Some m ->
  update m x1 st = Some st1 -> update m x2 st1 = Some st2 ->
  update m (vadd x1 x2) st = Some st2.
Proof.
  intros Hb. rewrite !(update_spec _ _ _ _ _ _ _ Hb).
  destruct (targets_length _ _ _ _ _ Hb) as [Hl _].
  destruct (Nat.eqb (List.length x1) (n_states m)) eqn:E1; [|discriminate].
  destruct (Nat.eqb (List.length x2) (n_states m)) eqn:E2; [|discriminate].
  apply Nat.eqb_eq in E1, E2. intros H1 H2. injection H1 as <-. injection H2 as <-.
  rewrite vadd_length by lia. rewrite E1, Nat.eqb_refl. f_equal. symmetry.
  apply add_all_accumulate; lia.
Qed.

Lemma read_add_all_notin t ts xs st :
  valid_target t -> Forall valid_target ts -> ~ In t ts ->
  read_target t (add_all ts xs st) = read_target t st.
Proof.
  intros Ht Hv. revert xs st. induction Hv as [|t' ts Ht' Hv IH]; intros xs st Hn; [reflexivity|].
  destruct xs as [|xi xs]; [reflexivity|]. rewrite add_all_cons, IH by (cbn in Hn; tauto).
  apply read_add_other; auto. cbn in Hn. intro E. apply Hn. left. congruence.
Qed.

Lemma read_all_add_all ts xs st :
  Forall valid_target ts -> NoDup ts -> List.length xs = List.length ts ->
  map (fun t => read_target t (add_all ts xs st)) ts
  = vadd (map (fun t => read_target t st) ts) xs.
Proof.
  intros Hv Hnd. revert xs st. induction Hnd as [|t ts Hnot Hnd IH]; intros xs st Hl.
  - destruct xs; reflexivity.
  - destruct xs as [|xi xs]; [discriminate|]. inversion Hv as [|? ? Ht Hv']; subst.
    rewrite add_all_cons. unfold vadd. cbn [map combine fst snd]. f_equal.
    + rewrite read_add_all_notin by assumption. apply read_add_same.
    + fold (vadd (map (fun t0 => read_target t0 st) ts) xs).
      rewrite IH by (auto; cbn in Hl; lia). f_equal.
      apply map_ext_in. intros t' Hin. apply read_add_other; auto.
      * rewrite Forall_forall in Hv'. now apply Hv'.
      * intro E. subst. contradiction.
Qed.

(** one update adds [x] componentwise (in state order) to what [get_estimates] returns *)
Lemma get_update bias_sd noise bias_walk sm_sd m x st st' g :
  build bias_sd noise bias_walk sm_sd = Some m ->
  get_estimates m st = Some g -> update m x st = Some st' ->
  get_estimates m st' = Some (vadd g x).
Proof.
  intros Hb. rewrite !(get_estimates_spec _ _ _ _ _ _ Hb), (update_spec _ _ _ _ _ _ _ Hb).
  destruct (targets_length _ _ _ _ _ Hb) as [Hl _].
  destruct (Nat.eqb (List.length x) (n_states m)) eqn:E1; [|discriminate]. apply Nat.eqb_eq in E1.
  intros Hg Hu. injection Hg as <-. injection Hu as <-. f_equal.
  apply read_all_add_all; [apply targets_valid|apply targets_NoDup|lia].
Qed.

Lemma read_reset t : valid_target t -> read_target t reset = 0.
Proof.
  destruct t as [a|o i]; cbn.
  - intro Ha. destruct a as [|[|[|a]]]; try lia; reflexivity.
  - intros [Ho Hi]. destruct o as [|[|[|o]]]; try lia; destruct i as [|[|[|i]]]; try lia;
      apply Qc_is_canon; reflexivity.
Qed.

Lemma read_reset_all ts :
  Forall valid_target ts -> map (fun t => read_target t reset) ts = repeat 0 (List.length ts).
Proof.
  induction 1 as [|t ts Ht Hv IH]; [reflexivity|].
  cbn [map List.length repeat]. rewrite (read_reset _ Ht), IH. reflexivity.
Qed.

Lemma get_reset bias_sd noise bias_walk sm_sd m :
  build bias_sd noise bias_walk sm_sd = Some m ->
  get_estimates m reset = Some (repeat 0 (n_states m)).
Proof.
  intro Hb. rewrite (get_estimates_spec _ _ _ _ _ _ Hb). f_equal.
  destruct (targets_length _ _ _ _ _ Hb) as [Hl _]. rewrite <- Hl.
  apply read_reset_all, targets_valid.
Qed.

(** run a sequence of updates *)
Fixpoint updates (m : emodel) (xs : list (list Qc)) (st : est) : option est :=
  match xs with
  | [] => Some st
  | x :: xs' => match update m x st with Some st' => updates m xs' st' | None => None end
  end.
Definition vsum (n : nat) (xs : list (list Qc)) : list Qc := fold_left vadd xs (repeat 0 n).

Lemma get_updates bias_sd noise bias_walk sm_sd m xs : 
  build bias_sd noise bias_walk sm_sd = Some m ->
  forall st st' g, get_estimates m st = Some g -> updates m xs st = Some st' ->
  get_estimates m st' = Some (fold_left vadd xs g).
Proof.
  intro Hb. induction xs as [|x xs IH]; intros st st' g Hg Hu; cbn in *.
  - congruence.
  - destruct (update m x st) as [st1|] eqn:E; [|discriminate].
    eapply IH; [|exact Hu]. eapply get_update; eauto.
Qed.

(** [get_after_update] *)
Lemma get_after_update bias_sd noise bias_walk sm_sd m xs st' :
  build bias_sd noise bias_walk sm_sd = Some m ->
  updates m xs reset = Some st' ->
  get_estimates m st' = Some (vsum (n_states m) xs).
Proof.
  intros Hb Hu.
  exact (get_updates _ _ _ _ _ xs Hb reset st' _ (get_reset _ _ _ _ _ Hb) Hu).
Qed.

(** updates succeed exactly when all lengths match *)
Lemma updates_defined bias_sd noise bias_walk sm_sd m xs st :
  build bias_sd noise bias_walk sm_sd = Some m ->
  Forall (fun x => List.length x = n_states m) xs -> exists st', updates m xs st = Some st'.
Proof.
  intros Hb Hf. revert st. induction Hf as [|x xs Hx Hf IH]; intro st; cbn; [eauto|].
  rewrite (update_spec _ _ _ _ _ _ _ Hb), Hx, Nat.eqb_refl. apply IH.
Qed.
